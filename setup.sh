#!/bin/sh
# Offline setup: nothing is downloaded or pre-built; checks slice /repo/src and
# compile their harnesses on every run.  This only verifies the tools exist.
set -e
cd "$(dirname "$0")"
for t in cbmc goto-cc goto-instrument g++ python3; do command -v $t >/dev/null || { echo "missing $t"; exit 1; }; done
cbmc --version
python3 -c "import sys; sys.path.insert(0,'.'); import engine.core, engine.slicer, engine.cbmc"
echo setup ok
