#!/bin/sh
# Native demonstration of the known finding C06 (jobserver token not returned) on the UNCHANGED tree.  usage: demo.sh <path to ninja binary>
# ninja runs as a jobserver client on a fifo holding ONE token; two commands run in parallel (the second one takes the token).
# Control: both succeed -> the token is back in the fifo.  Defect: the second command dies from SIGINT (ninja reaps status 130, takes its
# interrupt path: Cleanup() only releases the slots of commands that are still running) -> the token is never written back.
# exit 1 = defect present, 0 = not present.
NINJA=${1:-/repo/_build/ninja}
run() {   # $1: command of edge b
  D=$(mktemp -d) || exit 2
  mkfifo $D/fifo
  cat > $D/build.ninja <<EOM
rule slow
  command = sleep 2 && touch \$out
rule second
  command = $1
build a: slow
build b: second
build all: phony a b
EOM
  exec 9<>$D/fifo; printf 'x' >&9
  MAKEFLAGS="--jobserver-auth=fifo:$D/fifo" timeout 30 $NINJA -C $D all >/dev/null 2>&1
  LEFT=$(python3 -c "
import os
fd=os.open('$D/fifo',os.O_RDONLY|os.O_NONBLOCK)
try: d=os.read(fd,100)
except BlockingIOError: d=b''
print(len(d))")
  exec 9>&-; rm -rf $D
  echo $LEFT
}
C=$(run 'sleep 0.5; touch $out')
I=$(run 'sleep 0.5; kill -INT $$$$')
echo "tokens back in the fifo: control (both commands succeed) = $C, second command killed by SIGINT = $I (1 was lent)"
[ "$C" = 1 ] || { echo "control did not behave as expected"; exit 2; }
[ "$I" = 1 ] && { echo "token returned: defect not present"; exit 0; }
echo "DEFECT: ninja exited without returning the jobserver token it held for the interrupted command"
exit 1
