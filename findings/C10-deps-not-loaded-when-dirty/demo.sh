#!/bin/sh
# Native demonstration of the known finding C10 (also C01/C02) on the UNCHANGED tree.  usage: demo.sh <path to ninja binary>
# exit 1 = defect present (stale output after a successful build), 0 = not present.
NINJA=${1:-/repo/_build/ninja}
D=$(mktemp -d) || exit 2
trap 'rm -rf "$D"' EXIT
cat > $D/build.ninja <<'EOM'
rule gen
  command = cp a.in a.tmp && (cmp -s a.tmp a.out || cp a.tmp a.out)
  restat = 1
rule cc
  command = cat a.out h > b.out && echo "b.out: a.out h" > b.out.d
  depfile = b.out.d
  deps = gcc
build a.out: gen a.in
build b.out: cc a.out
EOM
echo A > $D/a.in; echo H1 > $D/h
$NINJA -C $D b.out >/dev/null || exit 2
sleep 1.1
echo H2 > $D/h; touch $D/a.in
$NINJA -C $D b.out > $D/log2 || exit 2
if grep -q H2 $D/b.out; then echo "b.out is up to date after the second build: defect not present"; exit 0; fi
echo "DEFECT: ninja exited 0 but b.out still holds the old header content:"; cat $D/b.out
$NINJA -C $D b.out | tail -1
echo "(the third run above rebuilt it: the build had not converged either)"
exit 1
