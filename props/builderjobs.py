"""Job catalogue of the Builder unit (props/builderunit.py + props/harness/builder_*.cc)."""
import re

from props import builderunit


def catalogue(tier, mutant=None):
    J = {}
    for no in (1, 2):
        J["B1.O%d" % no] = builderunit.job("Builder.StartEdge.contract.out%d" % no, "builder_startedge.cc", ["StartEdge"], ["NOUT=%d" % no], mutant, canaries=3,
                                           bound="an edge with %d outputs; phony/depfile/rspfile presence, rspfile content (0-2 arbitrary bytes, incl. empty), dry run, every disk and runner failure symbolic" % no)
        J["B2.O%d" % no] = builderunit.job("Builder.FinishCommand.contract.out%d" % no, "builder_finishcommand.cc", ["FinishCommand"], ["NOUT=%d" % no], mutant, canaries=4, str_cap=48,
                                           bound="an edge with %d outputs; exit status 0-255, deps/restat/generator/rspfile/dry-run/keeprsp, start time, in-memory and on-disk mtimes, every callee failure symbolic" % no,
                                           weight=3.0)
    for msvc in (0, 1):
        J["B4.M%d" % msvc] = builderunit.job("Builder.ExtractDeps.contract.%s" % ("msvc" if msvc else "gcc"), "builder_extractdeps.cc", ["ExtractDeps"], ["MSVC=%d" % msvc], mutant,
                                             canaries=1 if msvc else 3, str_cap=48,
                                             bound="deps = %s; depfile presence, read status (ok / not found / other error), content empty or not, parser verdicts, 0-2 dependencies, keepdepfile, removal result symbolic" % ("msvc" if msvc else "gcc"))
    w = 5 if tier == "thorough" else 4
    J["B3"] = builderunit.job("Builder.Build.loop.contract", "builder_build.cc", ["Build", "SetFailureCode"], ["VF_WAITS=%d" % w], mutant, canaries=4, str_cap=48, timeout=3000, weight=100.0,
                              bound="3 edges (one possibly phony), -k 1..3, at most %d waits (completions with status 0-255, token wake-ups, interrupt), every CanRunMore/FindWork/StartEdge/FinishCommand outcome symbolic" % w)
    return J


def select(tier, keys, tag, mutant=None):
    J = catalogue(tier, mutant)
    out = []
    rx = re.compile(tag)
    for k, j in J.items():
        if any(k == s or k.startswith(s + ".") for s in keys):
            j.clause_filter = rx
            out.append(j)
    return out


TRUST = builderunit.TRUST
ASSUME = ["MODULAR: StartEdge, FinishCommand and the Build loop are each checked against the CONTRACTS of their callees (stubs); the real Plan functions are under contract in C03-C06, "
          "RealCommandRunner::CanRunMore in C06, the binding accessors in C16; BuildLog::RecordCommand / DepsLog::RecordDeps in C08 / C09",
          "Build loop: ASSUMED plan liveness (while no command failed and nothing runs, a plan with work left offers work) - the 'never stuck' clause of C06 is not decided; "
          "a child that exits with 130 counts as an interrupt (excluded by the C05 statement)",
          "BOUNDED: outputs <= 2, 3 edges and a handful of events in the Build loop"]
