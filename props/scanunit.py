"""Dirty-scan unit: DependencyScan::RecomputeNodeDirty and DependencyScan::VerifyDAG (sliced from /repo/src/graph.cc) against contract stubs of
RecomputeEdgesInputsDirty, RecomputeOutputsDirtyCache, ImplicitDepLoader, Node::Stat and DyndepLoader.  Used by C10 / C01 / C02 / C17."""
import os
import re

from engine import slicer
from engine.core import Job, VERIF
from engine.routeb import gotocc_cpp, cbmc_argv, STD, unwindset_from_loops

FUNCS = {"RecomputeNodeDirty": r'bool\s+DependencyScan::RecomputeNodeDirty\s*\(', "VerifyDAG": r'bool\s+DependencyScan::VerifyDAG\s*\(',
         "RecomputeEdgesInputsDirty": r'bool\s+DependencyScan::RecomputeEdgesInputsDirty\s*\('}


def check_shadow():
    g = slicer.read_src("src/graph.h")
    for rx in [r'BuildLog\*\s+build_log_;', r'DiskInterface\*\s+disk_interface_;', r'ImplicitDepLoader\s+dep_loader_;', r'DyndepLoader\s+dyndep_loader_;',
               r'OptionalExplanations\s+explanations_;', r'std::optional<EdgeInputsRange>\s+LoadDeps\(Edge\*\s+edge,\s*std::string\*\s+err\);',
               r'bool\s+LoadDepsTry\(const\s+Edge\*\s+edge,\s*std::string\*\s+err\)\s+const;',
               r'bool\s+RecomputeEdgesInputsDirty\(const\s+Node\*\s+node,\s*EdgeInputsRange\s+input_range,', r'bool\s+maybe_phonycycle_diagnostic\(\)\s+const;',
               r'bool\s+deps_loaded_\s*=\s*false;', r'std::vector<Node\*>\s+validations_;',
               r'bool\s+StatIfNecessary\(DiskInterface\*\s+disk_interface,\s*std::string\*\s+err\)\s*\{\s*if\s*\(status_known\(\)\)\s*return\s+true;\s*return\s+Stat\(disk_interface,\s*err\);']:
        if not re.search(rx, g):
            raise slicer.SliceError("shadow for the scan unit out of date: /%s/ not found" % rx)
    c = slicer.read_src("src/graph.cc")
    for rx in [r'bool\s+all\(const\s+Node\*\s+most_recent_input\);', r'bool\s+depfile\(const\s+Node\*\s+most_recent_input\);',
               r'RecomputeOutputsDirtyCache\(BuildLog\*\s+build_log,\s*OptionalExplanations&\s+explanations,\s*Edge\*\s+edge\)']:
        if not re.search(rx, c):
            raise slicer.SliceError("shadow for the scan unit out of date: /%s/ not found" % rx)


PRELUDE = r'''
#include "graph.h"
#include <algorithm>
#include <utility>
using namespace std;
long nondet_long();
struct DiskInterface { int x; };
struct BuildLog { int x; };
/* ---- ghost trace of the calls RecomputeNodeDirty makes ---- */
enum { T_STAT = 1, T_VERIFY, T_INPUTS, T_OUT_ALL, T_OUT_DEPFILE, T_LOADDEPS, T_LOADDEPS_TRY, T_LOADDYNDEPS, T_RECURSE };
#define VF_T_CAP 16
static int vf_t_kind[VF_T_CAP]; static void* vf_t_ptr[VF_T_CAP]; static long vf_t_num[VF_T_CAP]; static int vf_t_n = 0;
static void vf_t(int kind, void* p, long num) { __CPROVER_assert(vf_t_n < VF_T_CAP, "model capacity: call trace"); __CPROVER_assume(vf_t_n < VF_T_CAP); vf_t_kind[vf_t_n] = kind; vf_t_ptr[vf_t_n] = p; vf_t_num[vf_t_n] = num; vf_t_n++; }
static int vf_t_count(int kind) { int c = 0; for (int i = 0; i < VF_T_CAP; i++) if (i < vf_t_n && vf_t_kind[i] == kind) c++; return c; }
static int vf_t_first(int kind) { int r = -1; for (int i = VF_T_CAP - 1; i >= 0; i--) if (i < vf_t_n && vf_t_kind[i] == kind) r = i; return r; }
/* Node::Stat by contract: sets mtime_/exists_ from the file system (symbolic answer), false on error */
static long vf_stat_answer[4]; static int vf_stats = 0;
bool Node::Stat(DiskInterface* disk_interface, std::string* err) {
  (void)disk_interface;
  long r = vf_stat_answer[vf_stats < 4 ? vf_stats : 3]; vf_stats++;
  vf_t(T_STAT, (void*)this, r);
  mtime_ = r;
  if (r == -1) { *err = "stat error"; return false; }
  exists_ = (r != 0) ? ExistenceStatusExists : ExistenceStatusMissing;
  return true;
}
struct EdgeInputsRange {                       /* graph.h: a view of a sub-range of edge->inputs_ (same members; vf_which is a ghost tag) */
  typedef std::vector<Node*>::iterator const_iterator;
  Edge* edge_; int vf_which;                  /* vf_which: 0 = all declared inputs, 1 = the range LoadDeps returned */
  const_iterator beg_, end_;
  EdgeInputsRange(Edge* edge) : edge_(edge), vf_which(0), beg_(edge->inputs_.begin()), end_(edge->inputs_.end()) {}
  EdgeInputsRange(Edge* edge, int which) : edge_(edge), vf_which(which), beg_(edge->inputs_.begin()), end_(edge->inputs_.end()) {}
  EdgeInputsRange(Edge* edge, const_iterator b, const_iterator e) : edge_(edge), vf_which(2), beg_(b), end_(e) {}
  const_iterator begin() const { return beg_; }
  const_iterator end() const { return end_; }
};
template <class T> struct vf_optional {        /* std::optional<T>: has_value / value / operator! */
  bool has_; T val_;
  vf_optional(const T& v) : has_(true), val_(v) {}
  vf_optional(bool h, const T& v) : has_(h), val_(v) {}
  bool operator!() const { return !has_; }
  T& value() { __CPROVER_assert(has_, "std::optional precondition: value() of an engaged optional"); return val_; }
};
static int vf_loaddeps_mode = 0;               /* 0: loaded, 1: missing/out of date (no error), 2: error */
static int vf_loaddeps_try_mode = 0;
struct ImplicitDepLoader {
  /* contract of LoadDeps (graph.h): adds the dependencies recorded for the edge (depfile / deps log) to edge->inputs_ as implicit inputs and returns their range;
     empty optional with *err empty if the information is missing or out of date; empty optional with *err set on error */
  vf_optional<EdgeInputsRange> LoadDeps(Edge* edge, std::string* err) {
    vf_t(T_LOADDEPS, (void*)edge, vf_loaddeps_mode);
    if (vf_loaddeps_mode == 2) *err = "depfile error";
    return vf_optional<EdgeInputsRange>(vf_loaddeps_mode == 0, EdgeInputsRange(edge, 1));
  }
  bool LoadDepsTry(const Edge* edge, std::string* err) const {
    vf_t(T_LOADDEPS_TRY, (void*)edge, vf_loaddeps_try_mode);
    if (vf_loaddeps_try_mode == 2) *err = "depfile error";
    return vf_loaddeps_try_mode == 0;
  }
};
#define optional vf_optional
static bool vf_out_all = false, vf_out_depfile = false;
static int vf_records = 0;
struct OptionalExplanations { void Record(const Node* n, const char* fmt, const char* a) { (void)n; (void)fmt; (void)a; vf_records++; } };
struct RecomputeOutputsDirtyCache {            /* contract stub (graph.cc): all(mri) = some output is dirty w.r.t. mri and the log; depfile(mri) = the follow-up check after deps were loaded */
  RecomputeOutputsDirtyCache(BuildLog* build_log, OptionalExplanations& explanations, Edge* edge) { (void)build_log; (void)explanations; (void)edge; }
  bool all(const Node* most_recent_input) { vf_t(T_OUT_ALL, (void*)most_recent_input, 0); return vf_out_all; }
  bool depfile(const Node* most_recent_input) {
    __CPROVER_assert(vf_t_count(T_OUT_ALL) == 1, "pre depfile(): all() was called before and returned false");
    vf_t(T_OUT_DEPFILE, (void*)most_recent_input, 0); return vf_out_depfile;
  }
};
static bool vf_inputs_dirty[2]; static Node* vf_inputs_mri[2]; static bool vf_inputs_unready[2]; static bool vf_inputs_ret[2];
static bool vf_dyndep_ret = true;
struct DependencyScan {
  BuildLog* build_log_; DiskInterface* disk_interface_; ImplicitDepLoader dep_loader_; OptionalExplanations explanations_;
  DependencyScan() : build_log_(0), disk_interface_(0) {}
  BuildLog* build_log() const { return build_log_; }
  bool RecomputeNodeDirty(Node* node, std::vector<Node*>* stack, std::vector<Node*>* validation_nodes, std::string* err);
  bool VerifyDAG(Node* node, std::vector<Node*>* stack, std::string* err);
  bool LoadDyndeps(Node* node, std::string* err) const { vf_t(T_LOADDYNDEPS, (void*)node, 0); if (!vf_dyndep_ret) *err = "dyndep error"; return vf_dyndep_ret; }
  /* contract of RecomputeEdgesInputsDirty (graph.cc doc comment): visits every input of the range (recursively), clears edge->outputs_ready_ if a producer is not ready,
     sets dirty if a non-order-only input is dirty or missing, updates most_recent_input to the newest clean non-order-only input */
  bool RecomputeEdgesInputsDirty(const Node* node, EdgeInputsRange input_range, Node*& most_recent_input, bool& dirty,
                                 std::vector<Node*>* stack, std::vector<Node*>* validation_nodes, std::string* err);
};
/* ---- verbatim slices of /repo/src/graph.cc (lowerings listed in props/scanunit.py) ---- */
%(funcs)s
/* ---- end of slices ---- */
'''


def unit_text(real, mutant=None, rec=()):
    check_shadow()
    parts = []
    nrec = 0
    for name in real:
        f = slicer.extract_function("src/graph.cc", FUNCS[name])
        if mutant and getattr(mutant, "target", None) == name:
            f = mutant(f)
        if name in rec:
            hdr_end = f.index("{")
            body_, k = re.subn(r'(?<![\w:>.])%s\(' % name, 'vf_rec_%s(this, ' % name, f[hdr_end:])
            nrec += k
            f = f[:hdr_end] + body_
        parts.append(f)
    body = "\n\n".join(parts)
    # L7: range-for over a vector<Node*> (both `Node* o` and `auto o` spellings)
    body, n7 = re.subn(r'for\s*\(\s*(?:Node\s*\*|auto)\s*(\w+)\s*:\s*([\w>-]+)\s*\)\s*(\{?)',
                       lambda m: ("for (std::vector<Node*>::iterator vf_it_%s = %s.begin(); vf_it_%s != %s.end(); ++vf_it_%s) %s" % (
                           m.group(1), m.group(2), m.group(1), m.group(2), m.group(1), ("{ Node* %s = *vf_it_%s;" % (m.group(1), m.group(1))) if m.group(3) else "(*vf_it_%s)->" % m.group(1))), body)
    # the brace-less form `for (auto o : outs)\n  o->MarkDirty();` became `for (...) (*vf_it_o)->` + `o->MarkDirty();` : drop the now duplicated receiver
    body, n7b = re.subn(r'\(\*vf_it_(\w+)\)->\s*\1->', r'(*vf_it_\1)->', body)
    body, n10 = re.subn(r'\bassert\(([^;]*?)\s*&&\s*"[^"]*"\)', r'assert(\1)', body)
    # RecomputeEdgesInputsDirty: `const auto& edge = input_range.edge_;` (auto), range-for over the view, `auto i = ...begin()`, declaration in a condition (L27), cbegin()
    body = body.replace("const auto& edge = input_range.edge_;", "Edge* const& edge = input_range.edge_;")
    body, n7c = re.subn(r'for\s*\(\s*auto\s+(\w+)\s*:\s*input_range\s*\)\s*\{',
                        r'for (EdgeInputsRange::const_iterator vf_it_\1 = input_range.begin(); vf_it_\1 != input_range.end(); ++vf_it_\1) { Node* \1 = *vf_it_\1;', body)
    body = body.replace("for (auto i = input_range.begin();", "for (EdgeInputsRange::const_iterator i = input_range.begin();")
    body, n27 = re.subn(r'\bif\s*\(\s*(\w+)\s*\*\s*(\w+)\s*=\s*([^;{}]+?)\)\s*\{', r'\1* \2 = \3; if (\2) {', body)
    body = body.replace("edge->inputs_.cbegin()", "edge->inputs_.begin()")
    body = body.replace("EdgeInputsRange::const_iterator", "std::vector<Node*>::iterator")
    body, ne = re.subn(r'explanations_\.Record\(', 'explanations_.Record(', body)
    body = body.replace("std::optional<", "vf_optional<")
    counts = {"L7": n7, "L10": n10, "R1": nrec}
    return PRELUDE % {"funcs": body}, counts


def build_fn(harness_file, real, defines=(), mutant=None, rec=(), unwind=18, str_cap=64):
    def build(d):
        unit, counts = unit_text(real, mutant, rec)
        with open(os.path.join(VERIF, "props", "harness", harness_file)) as f:
            h = f.read()
        with open(os.path.join(d, "unit.cc"), "w") as f:
            f.write(unit + h)
        steps = [gotocc_cpp(["unit.cc"], defines=list(defines) + ["VF_STR_CAP=%d" % str_cap, "VF_VEC_CAP=4", "VF_MAP_CAP=3", "VF_SET_CAP=3"],
                            includes=[os.path.join(VERIF, "props", "harness"), os.path.join(VERIF, "stubs", "ninja_plan"), os.path.join(VERIF, "stubs", "cstring"), STD, os.path.join(VERIF, "stubs")])]
        build.lowerings = counts

        def post(dd, av):
            us, _ = unwindset_from_loops(dd, "a.gb", [("vf_s_", str_cap + 4), ("append", str_cap + 4), ("harness.", 20)])
            return av + (["--unwindset", us] if us else [])
        return steps, cbmc_argv(unwind=unwind, object_bits=11), post
    return build


def job(name, harness_file, real, defines=(), mutant=None, rec=(), bound=None, canaries=1, weight=1.0, timeout=1200, str_cap=64):
    j = Job(name, build_fn(harness_file, real, defines, mutant, rec, str_cap=str_cap), "bounded", timeout=timeout, canaries=canaries, bound=bound,
            functions=["graph.cc:DependencyScan::" + r for r in real], weight=weight)
    j.strict_bodies = True
    return j


TRUST = ["cbmc 6.11.0 C++ front end", "model std::string/vector", "shadow Node/Edge (stubs/ninja_plan/graph.h), shadow DependencyScan (members conformance-checked against graph.h)",
         "contract stubs: RecomputeEdgesInputsDirty (doc-comment contract), RecomputeOutputsDirtyCache::all/depfile, ImplicitDepLoader::LoadDeps/LoadDepsTry (std::optional modelled), Node::Stat, LoadDyndeps; "
         "explanations are a counting stub", "lowerings L7 (range-for, incl. `auto`), L10, R1 (recursive call by contract), std::optional -> vf_optional"]
