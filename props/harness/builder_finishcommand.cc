/* B2: contract of Builder::FinishCommand (real) against the contracts of ExtractDeps, DiskInterface::Stat, Status, Plan::EdgeFinished/CleanNode,
 * BuildLog::RecordCommand and DepsLog::RecordDeps.  Clauses of C05 (a failed command leaves no log record), C01 (what mtime is recorded; deps are
 * recorded for every successful deps command), C03 (restat cleaning), C16 (response file removed after success, kept on failure), C20. */
void Builder::Cleanup() { vf_cleanups++; }
static bool vf_extract_ok = true; static int vf_extract_calls = 0; static Node vf_dep_a, vf_dep_b;
bool Builder::ExtractDeps(BuildResult::CommandCompleted& result, const std::string& deps_type, const std::string& deps_prefix, std::vector<Node*>* deps_nodes, std::string* err) {
  (void)result; (void)deps_type; (void)deps_prefix;
  vf_extract_calls++;
  if (!vf_extract_ok) { *err = "bad depfile"; return false; }     /* contract: false => *err set; true => deps_nodes hold what the command read */
  deps_nodes->push_back(&vf_dep_a); deps_nodes->push_back(&vf_dep_b);
  return true;
}
extern "C" void harness() {
  Builder b; BuildConfig cfg; DiskInterface disk; Status status; CommandRunner runner; BuildLog blog; DepsLog dlog;
  b.config_p_ = &cfg; b.disk_interface_ = &disk; b.status_ = &status; b.command_runner_.p = &runner;
  b.lock_file_path_ = ".ninja_lock"; vf_register_path(b.lock_file_path_);
  bool with_log = nondet_bool();
  b.scan_.vf_bl = with_log ? &blog : (BuildLog*)0; b.scan_.vf_dl = &dlog;
  blog.vf_fail = nondet_bool(); dlog.vf_fail = nondet_bool();
  cfg.dry_run = nondet_bool();
  b.plan_.vf_ef_ret = nondet_bool(); b.plan_.vf_clean_ret = nondet_bool();
  g_keep_rsp = nondet_bool();
  static Edge e; static Node o[NOUT];
  const char* names[2] = { "a.o", "b.o" };
  int id_out[NOUT]; long mem_mtime[NOUT], disk_mtime[4];
  for (int i = 0; i < NOUT; i++) {
    o[i].path_ = names[i]; e.outputs_.push_back(&o[i]); id_out[i] = vf_register_path(o[i].path_);
    mem_mtime[i] = nondet_long(); __CPROVER_assume(mem_mtime[i] >= 0 && mem_mtime[i] < 1000000); o[i].mtime_ = mem_mtime[i];
  }
  for (int i = 0; i < 4; i++) { long r = nondet_long(); __CPROVER_assume(r >= -1 && r < 1000000); disk.vf_stat_ret[i] = r; disk_mtime[i] = r; }
  bool has_deps = nondet_bool(), has_rsp = nondet_bool();
  int id_rsp = -2;
  if (has_deps) e.vf_deps = "gcc";
  if (has_rsp) { e.vf_rspfile = "x.rsp"; id_rsp = vf_register_path(e.vf_rspfile); }
  e.vf_restat = nondet_bool(); e.vf_generator = nondet_bool();
  { long st = nondet_long(); __CPROVER_assume(st >= 0 && st < 1000000); e.command_start_time_ = st; }
  long start_time = e.command_start_time_;
  b.running_edges_.insert(std::make_pair(&e, (int64_t)5));
  vf_extract_ok = nondet_bool();
  BuildResult::CommandCompleted cc; cc.edge = &e;
  { int st = nondet_int(); __CPROVER_assume(st >= 0 && st <= 255); cc.status = (ExitStatus)st; }
  bool cmd_ok = cc.status == ExitSuccess;
  cc.output = "out";
  std::string err;

  bool ok = b.FinishCommand(cc, &err);

  bool failed = !cmd_ok || (has_deps && !vf_extract_ok);
  __CPROVER_assert(vf_count(EV_STATUS_FINISHED) == 1, "post C20: every finished command is reported finished exactly once");
  __CPROVER_assert(b.running_edges_.find(&e) == b.running_edges_.end(), "post C20: the command is no longer counted as running");
  int sf = vf_first(EV_STATUS_FINISHED);
  if (sf >= 0) __CPROVER_assert((vf_ev_num[sf] == 0) == !failed, "post C05/C20: the status reported for the command is success exactly if it succeeded and its dependencies could be extracted");
  if (failed) {
    __CPROVER_assert(vf_count(EV_LOG_CMD) == 0, "post C05: no build-log record is written for a failed command (so the next build retries it)");
    __CPROVER_assert(vf_count(EV_LOG_DEPS) == 0, "post C05: no deps-log record is written for a failed command");
    __CPROVER_assert(vf_count(EV_PLAN_FINISHED) == 1 && vf_ev_num[vf_first(EV_PLAN_FINISHED)] == (long)Plan::kEdgeFailed, "post C05: the plan is told that the command failed (its dependents stay blocked)");
    __CPROVER_assert(vf_count(EV_REMOVE) == 0, "post C16: the response file is kept when the command fails");
    __CPROVER_assert(vf_count(EV_PLAN_CLEAN) == 0, "post C03: nothing is cleaned after a failed command");
    __CPROVER_assert(ok == b.plan_.vf_ef_ret, "post: the result is the plan's");
    if (cmd_ok) __CPROVER_assert(cc.status != ExitSuccess, "post C05: a command whose dependency output cannot be parsed counts as failed");
  } else {
    /* walk the Stat results the way the statement describes them */
    bool must_stat = !cfg.dry_run && (start_time == 0 || e.vf_restat || e.vf_generator);
    int si = 0; bool stat_failed = false; bool cleaned = false; bool clean_failed = false; long newest = start_time; int expect_cleans = 0;
    if (must_stat)
      for (int i = 0; i < NOUT; i++)
        if (!stat_failed && !clean_failed) {
          long m = disk_mtime[si < 4 ? si : 3]; si++;
          if (m == -1) stat_failed = true;
          else {
            if (m > newest) newest = m;
            if (m == mem_mtime[i] && e.vf_restat) { cleaned = true; expect_cleans++; if (!b.plan_.vf_clean_ret) clean_failed = true; }
          }
        }
    if (stat_failed || clean_failed) {
      __CPROVER_assert(!ok, "post C13: a file-system error while examining the outputs fails the build instead of recording a guess");
      __CPROVER_assert(vf_count(EV_LOG_CMD) == 0 && vf_count(EV_LOG_DEPS) == 0, "post C08/C09: nothing is logged after such an error");
    } else {
      __CPROVER_assert(vf_count(EV_PLAN_CLEAN) == expect_cleans, "post C03: exactly the outputs a restat command left untouched (same mtime as before) are cleaned");
      __CPROVER_assert(vf_count(EV_PLAN_FINISHED) == 1 && vf_ev_num[vf_first(EV_PLAN_FINISHED)] == (long)Plan::kEdgeSucceeded, "post C04: the plan is told that the command succeeded, once");
      if (!b.plan_.vf_ef_ret) {
        __CPROVER_assert(!ok && vf_count(EV_LOG_CMD) == 0, "post C11: a dyndep load failure after the command fails the build");
      } else {
        __CPROVER_assert(vf_count(EV_REMOVE) == ((has_rsp && !g_keep_rsp) ? 1 : 0) && (!(has_rsp && !g_keep_rsp) || vf_find(EV_REMOVE, id_rsp) >= 0),
                         "post C16: the response file is removed after the command succeeds (unless -d keeprsp), and nothing else is removed");
        __CPROVER_assert(vf_count(EV_LOG_CMD) == (with_log ? 1 : 0), "post C08: a successful command is recorded in the build log exactly once");
        if (with_log) {
          long rec = vf_ev_num[vf_first(EV_LOG_CMD)];
          long expect = cfg.dry_run ? 0 : (cleaned ? start_time : newest);
          __CPROVER_assert(rec == expect, "post C01: the recorded mtime is the command's start time (so an input edited while it ran is newer than the record); "
                                          "for restat/generator rules, or when the start time is unknown, it is the newest of that and the outputs' own times on disk; "
                                          "a restat command that left an output untouched records its start time");
          __CPROVER_assert(vf_ev_ptr[vf_first(EV_LOG_CMD)] == (void*)&e, "post C08: it is this command that is recorded");
        }
        if (with_log && blog.vf_fail) {
          __CPROVER_assert(!ok && !err.empty(), "post C08: a build-log write error stops the build with a message");
        } else {
          bool want_deps = has_deps && !cfg.dry_run;
          if (!want_deps) {
            __CPROVER_assert(vf_count(EV_LOG_DEPS) == 0, "post C19/C09: no deps record without deps, nor in a dry run");
            __CPROVER_assert(ok, "post: success");
          } else {
            /* one record per output, with the output's mtime on disk and the extracted dependencies - ALSO when restat cleaned the output */
            bool deps_stat_failed = false; int expect_recs = 0; bool rec_failed = false;
            for (int i = 0; i < NOUT; i++)
              if (!deps_stat_failed && !rec_failed) {
                long m = disk_mtime[si < 4 ? si : 3]; si++;
                if (m == -1) deps_stat_failed = true;
                else {
                  int k = vf_find(EV_LOG_DEPS, id_out[i]);
                  __CPROVER_assert(k >= 0, "post C01/C09: the dependencies of every output of a successful deps command are recorded - also when restat left the output untouched");
                  if (k >= 0) {
                    __CPROVER_assert(vf_ev_num[k] == m, "post C09: with the output's mtime on disk");
                    __CPROVER_assert(vf_ev_ptr[k] == (void*)(size_t)2, "post C10: with all the dependencies the command reported");
                  }
                  expect_recs++;
                  if (dlog.vf_fail) rec_failed = true;
                }
              }
            __CPROVER_assert(vf_count(EV_LOG_DEPS) == expect_recs, "post C09: one deps record per output");
            __CPROVER_assert(ok == !(deps_stat_failed || rec_failed), "post C09: a deps-log write or stat error stops the build");
          }
        }
      }
    }
  }
  if (failed) __CPROVER_assert(0, "canary: failed command");
  if (!failed && ok && has_deps && !cfg.dry_run && e.vf_restat) __CPROVER_assert(0, "canary: restat + deps success");
  if (!failed && ok && with_log) __CPROVER_assert(0, "canary: recorded");
  __CPROVER_assert(0, "canary: end of harness reachable");
}
