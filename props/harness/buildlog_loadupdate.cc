/* W4: the entry-update statements of BuildLog::Load (real text, sliced by line range) applied to two parsed lines: 'the last record per output wins'. */
DiskInterface* vf_unused_disk = 0;
TimeStamp DiskInterface::Stat(const std::string& path, std::string* err) const { (void)path; (void)err; return 0; }
bool BuildLogUser::IsPathDead(StringPiece s) const { (void)s; return false; }
extern "C" void harness() {
  BuildLog* blp = new BuildLog(); BuildLog& bl = *blp;
  static char hex[4] = { '1', 'f', '\n', 0 };
  int unique = 0, total = 0;
  /* line 1: output "a" */
  int st1 = nondet_int(), en1 = nondet_int(); long mt1 = nondet_long(); __CPROVER_assume(mt1 >= 0 && mt1 < 1000000); unsigned long h1 = nondet_ulong();
  vf_hash_parsed = h1;
  bl.vf_LoadUpdate(std::string("a"), st1, en1, mt1, &hex[0], &hex[2], unique, total);
  __CPROVER_assert(hex[2] == '\n', "post C08: the line buffer is restored after the hash is read");
  BuildLog::LogEntry* a1 = bl.LookupByOutput(std::string("a"));
  __CPROVER_assert(a1 != 0 && a1->mtime == mt1 && a1->command_hash == h1 && a1->start_time == st1 && a1->end_time == en1, "post C08: a complete line yields a record with exactly its fields");
  __CPROVER_assert(unique == 1 && total == 1, "post C08: counters (they decide recompaction)");
  /* line 2: the same output again (SAME = 1) or another one, with any values - in particular a SMALLER mtime */
  int st2 = nondet_int(), en2 = nondet_int(); long mt2 = nondet_long(); __CPROVER_assume(mt2 >= 0 && mt2 < 1000000); unsigned long h2 = nondet_ulong();
  vf_hash_parsed = h2;
#if SAME
  bl.vf_LoadUpdate(std::string("a"), st2, en2, mt2, &hex[0], &hex[2], unique, total);
  BuildLog::LogEntry* a2 = bl.LookupByOutput(std::string("a"));
  __CPROVER_assert(a2 == a1, "post C08: a later line for the same output updates its record (one record per output)");
  __CPROVER_assert(a2 != 0 && a2->mtime == mt2 && a2->command_hash == h2 && a2->start_time == st2 && a2->end_time == en2,
                   "post C08: the LAST record per output wins - whatever its mtime, hash or times are compared with the earlier one");
  __CPROVER_assert(unique == 1 && total == 2, "post C08: counters");
  if (mt2 < mt1) __CPROVER_assert(0, "canary: later record with the smaller mtime");
#else
  bl.vf_LoadUpdate(std::string("b"), st2, en2, mt2, &hex[0], &hex[2], unique, total);
  BuildLog::LogEntry* b2 = bl.LookupByOutput(std::string("b")); BuildLog::LogEntry* a2 = bl.LookupByOutput(std::string("a"));
  __CPROVER_assert(b2 != 0 && b2 != a1 && b2->mtime == mt2 && b2->command_hash == h2, "post C08: a line for another output yields its own record");
  __CPROVER_assert(a2 == a1 && a1->mtime == mt1 && a1->command_hash == h1, "post C08 (frame): the other output's record is untouched");
  __CPROVER_assert(unique == 2 && total == 2, "post C08: counters");
#endif
  __CPROVER_assert(0, "canary: end of harness reachable");
}
