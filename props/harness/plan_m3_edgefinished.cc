/* M3: contract of Plan::EdgeFinished (real) against the contracts of NodeFinished (stub), Builder::LoadDyndeps, Pool and the jobserver client. */
#include "plan_common.inc"
static int vf_nf_calls = 0; static Node* vf_nf_nodes[4]; static bool vf_nf_ret[4];
bool Plan::NodeFinished(Node* node, string* err) {
  __CPROVER_assert(node->in_edge_ != 0 && node->in_edge_->outputs_ready_, "pre NodeFinished (C04): dependents are notified only about a node whose producer has finished");
  __CPROVER_assert(vf_nf_calls < 4, "model capacity: notifications");
  vf_nf_nodes[vf_nf_calls] = node;
  bool r = vf_nf_ret[vf_nf_calls];
  vf_nf_calls++;
  if (!r) *err = "error";
  return r;
}
extern "C" void harness() {
  Builder builder; Status status; builder.status_ = &status; vf_JobserverClient js;
  bool with_js = nondet_bool(); if (with_js) builder.jobserver_.p = &js;
  bool with_builder = nondet_bool();
  Plan* planp = new Plan(with_builder ? &builder : (Builder*)0); Plan& plan = *planp;
  static Pool pool; pool.depth_ = nondet_bool() ? 0 : 1;
  static Edge e, other; static Node o[NOUT], in0;
  e.pool_ = &pool; other.pool_ = &pool;
  e.vf_phony = nondet_bool();                                  /* phony edges travel through the same bookkeeping (pool slot, jobserver token) */
  e.inputs_.push_back(&in0);
  { int io = nondet_int(); __CPROVER_assume(io >= 0 && io <= NOUT); e.implicit_outs_ = io; }      /* any explicit/implicit split of the outputs */
  for (int i = 0; i < NOUT; i++) { e.outputs_.push_back(&o[i]); o[i].in_edge_ = &e; o[i].dirty_ = nondet_bool(); }
  bool dirty0[NOUT]; for (int i = 0; i < NOUT; i++) dirty0[i] = o[i].dirty_;
  int w = nondet_int(), wo = nondet_int();
  __CPROVER_assume(w >= 0 && w <= 2 && wo >= 0 && wo <= 2);
  plan.want_.insert(std::make_pair(&other, (Plan::Want)wo));
  plan.want_.insert(std::make_pair(&e, (Plan::Want)w));
  int wanted = (w > 0 ? 1 : 0) + (wo > 0 ? 1 : 0);
  plan.wanted_edges_ = wanted; plan.command_edges_ = nondet_int();
  int cmd0 = plan.command_edges_;
  Plan::EdgeResult result = nondet_bool() ? Plan::kEdgeSucceeded : Plan::kEdgeFailed;
  /* precondition: a command that ran had been scheduled (kWantToFinish); an edge passed through without running needs no command (kWantNothing) and "succeeds" */
  __CPROVER_assume(w == (int)Plan::kWantToFinish || (w == (int)Plan::kWantNothing && result == Plan::kEdgeSucceeded));
  e.outputs_ready_ = false;
  for (int i = 0; i < 4; i++) vf_nf_ret[i] = nondet_bool();
  std::string err;

  bool ok = plan.EdgeFinished(&e, result, &err);

  bool directly_wanted = w != (int)Plan::kWantNothing;
  __CPROVER_assert(vf_dirty_writes == 0, "post C03 (frame): finishing an edge never writes a node's dirty flag (only restat cleaning does)");
  for (int i = 0; i < NOUT; i++) __CPROVER_assert(o[i].dirty_ == dirty0[i], "post C03 (frame): the outputs' dirty flags are unchanged");
  __CPROVER_assert(pool.vf_finished == (directly_wanted ? 1 : 0) && (!directly_wanted || pool.vf_last == &e), "post C06: the pool slot of a command that ran is given back exactly once");
  __CPROVER_assert(pool.vf_retrieved == 1, "post C06: delayed edges of the pool get the chance to take the freed slot");
  __CPROVER_assert(pool.vf_scheduled == 0 && pool.vf_delayed == 0 && vf_started == 0, "post: EdgeFinished itself starts nothing (only NodeFinished's readiness checks do)");
  if (with_builder && with_js) __CPROVER_assert(js.vf_released == 1, "post C06: the jobserver token held by the edge is returned, on success and on failure");
  __CPROVER_assert(vf_want_of(plan, &other) == wo, "post (frame): other plan entries are untouched");
  __CPROVER_assert(plan.command_edges_ == cmd0, "post (frame): command_edges_ is not changed by a completion");
  if (result == Plan::kEdgeFailed) {
    __CPROVER_assert(ok, "post C05: a failed command is not a planning error");
    __CPROVER_assert(!e.outputs_ready_, "post C04/C05: a failed command's outputs are not marked ready (a producer that failed has not finished successfully)");
    __CPROVER_assert(vf_nf_calls == 0, "post C04/C05: nothing that depends on a failed command is notified (so none of it is started)");
    __CPROVER_assert(vf_want_of(plan, &e) == w, "post C05: a failed command stays in the plan, blocking its dependents");
    __CPROVER_assert(plan.wanted_edges_ == wanted, "post C05: the failed command still counts as wanted (the build cannot report success)");
    __CPROVER_assert(vf_loaddyndeps_calls == 0, "post C05: dyndep information produced by a failed command is not loaded");
  } else {
    __CPROVER_assert(e.outputs_ready_, "post C04: a finished edge's outputs are ready");
    __CPROVER_assert(vf_want_of(plan, &e) == -1, "post C06: a finished edge leaves the plan (it cannot be scheduled again)");
    __CPROVER_assert(plan.wanted_edges_ == wanted - (directly_wanted ? 1 : 0), "post C06: wanted_edges_ drops by one exactly for a wanted edge (termination test of the build loop)");
    if (with_builder) __CPROVER_assert(vf_loaddyndeps_calls == 1, "post C11: dyndep information provided by the finished edge is loaded, once");
    if (with_builder && vf_loaddyndeps_failed) {
      __CPROVER_assert(!ok && !err.empty(), "post C11: a dyndep load failure fails the build with a message");
    } else {
      int expect = 0; bool expect_ok = true;
      for (int i = 0; i < NOUT; i++)
        if (expect_ok) {
          __CPROVER_assert(expect < vf_nf_calls && vf_nf_nodes[expect] == &o[i], "post C04: the dependents of every output (explicit and implicit) are notified, once, in order");
          if (!vf_nf_ret[expect]) expect_ok = false;
          expect++;
        }
      __CPROVER_assert(vf_nf_calls == expect, "post: no other node is reported finished");
      __CPROVER_assert(ok == expect_ok, "post: the result is the conjunction of the notifications");
    }
  }
  if (result == Plan::kEdgeFailed) __CPROVER_assert(0, "canary: failed command");
  if (result == Plan::kEdgeSucceeded && ok) __CPROVER_assert(0, "canary: success");
  __CPROVER_assert(0, "canary: end of harness reachable");
}
