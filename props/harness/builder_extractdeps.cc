/* B4: contract of Builder::ExtractDeps (real) against the contracts of DiskInterface::ReadFile/RemoveFile, DepfileParser, CLParser, State::GetNode.
 * C05: a command whose dependency output cannot be read or parsed must count as failed (ExtractDeps returns false with a message); C10: on success the
 * reported dependencies are handed on, all of them, in order. */
void Builder::Cleanup() { vf_cleanups++; }
extern "C" void harness() {
  Builder b; BuildConfig cfg; DiskInterface disk; State st;
  b.config_p_ = &cfg; b.disk_interface_ = &disk; b.state_ = &st;
  static Edge e; BuildResult::CommandCompleted cc; cc.edge = &e; cc.status = ExitSuccess; cc.output = "raw";
  bool has_depfile = nondet_bool();
  int id_dep = -2;
  vf_register_path(std::string(".ninja_lock"));
  if (has_depfile) { e.vf_depfile = "x.d"; id_dep = vf_register_path(e.vf_depfile); }
  { int s = nondet_int(); __CPROVER_assume(s >= 0 && s <= 2); disk.vf_read_status = s; }
  bool empty_content = nondet_bool();
  if (!empty_content) disk.vf_read_content = "x: a b";
  { long r = nondet_long(); __CPROVER_assume(r >= -1 && r <= 1); disk.vf_remove_ret = r; }
  vf_depparse_ok = nondet_bool(); { int n = nondet_int(); __CPROVER_assume(n >= 0 && n <= 2); vf_depparse_n = n; }
  vf_cl_ok = nondet_bool();
  g_keep_depfile = nondet_bool();
  std::vector<Node*> nodes; std::string err;
#if MSVC
  std::string type("msvc");
#else
  std::string type("gcc");
#endif
  std::string prefix;
  bool ok = b.ExtractDeps(cc, type, prefix, &nodes, &err);
#if MSVC
  __CPROVER_assert(ok == vf_cl_ok, "post C05: if the compiler output cannot be parsed for /showIncludes, extraction fails (the command then counts as failed)");
  if (ok) { __CPROVER_assert(nodes.size() == 1, "post C10: every reported include becomes a dependency"); std::string want("filtered"); __CPROVER_assert(cc.output == want, "post C20: the include notes are filtered out of the output shown"); }
  else __CPROVER_assert(!err.empty(), "post C05: with a message");
#else
  bool readable = disk.vf_read_status == (int)DiskInterface::Okay;
  bool missing = disk.vf_read_status == (int)DiskInterface::NotFound;
  if (!has_depfile) {
    __CPROVER_assert(!ok && !err.empty(), "post C05: deps = gcc without a depfile is an error");
  } else if (!readable && !missing) {
    __CPROVER_assert(!ok && !err.empty(), "post C05: a depfile that exists but cannot be read makes extraction fail (the command must not be recorded as a success with no dependencies)");
    __CPROVER_assert(nodes.size() == 0 && vf_count(EV_REMOVE) == 0, "post: nothing is taken from or done to an unreadable depfile");
  } else if (missing || empty_content) {
    __CPROVER_assert(ok && nodes.size() == 0, "post C10: a missing or empty depfile means no discovered dependencies");
  } else if (!vf_depparse_ok) {
    __CPROVER_assert(!ok && !err.empty(), "post C05/C13: a malformed depfile makes extraction fail with the parser's message");
  } else {
    __CPROVER_assert(nodes.size() == (size_t)vf_depparse_n && vf_getnode_calls == vf_depparse_n, "post C10: every dependency the depfile names is handed on, once, in order");
    for (int i = 0; i < 2; i++) if (i < vf_depparse_n && (size_t)i < nodes.size()) __CPROVER_assert(nodes.d_[i] == &vf_state_nodes[i], "post C10: ... in order");
    __CPROVER_assert(vf_count(EV_REMOVE) == (g_keep_depfile ? 0 : 1) && (g_keep_depfile || vf_find(EV_REMOVE, id_dep) >= 0), "post: the depfile is consumed (removed) once its content is in the deps log, unless -d keepdepfile");
    __CPROVER_assert(ok == (g_keep_depfile || disk.vf_remove_ret >= 0), "post: failing to delete the depfile is an error");
  }
  if (has_depfile && !readable && !missing) __CPROVER_assert(0, "canary: unreadable depfile");
  if (ok && nodes.size() == 2) __CPROVER_assert(0, "canary: two dependencies");
#endif
  __CPROVER_assert(0, "canary: end of harness reachable");
}
