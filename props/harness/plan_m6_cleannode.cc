/* M6: contract of Plan::CleanNode (real; recursion replaced by its own contract, R1) against the contract of DependencyScan::RecomputeOutputsDirty. */
#include "plan_common.inc"
static int vf_rec_calls = 0; static Node* vf_rec_nodes[4]; static bool vf_rec_ret[4];
static bool vf_rec_CleanNode(Plan* self, DependencyScan* scan, Node* node, string* err) {
  (void)self; (void)scan;
  __CPROVER_assert(vf_rec_calls < 4, "model capacity: recursive calls");
  vf_rec_nodes[vf_rec_calls] = node;
  bool r = vf_rec_ret[vf_rec_calls];
  vf_rec_calls++;
  if (!r) *err = "stat error";
  return r;
}
long nondet_long();
extern "C" void harness() {
  Builder builder; Status status; builder.status_ = &status;
  bool with_builder = nondet_bool();
  Plan* planp = new Plan(with_builder ? &builder : (Builder*)0); Plan& plan = *planp;
  DependencyScan scan;
  static Edge f, g, other; static Node n, m, k, p, q;
  Node* ins[3] = { &n, &m, &k };
  f.inputs_.push_back(&n); f.inputs_.push_back(&m); f.inputs_.push_back(&k);
  f.outputs_.push_back(&p); f.outputs_.push_back(&q);
  g.inputs_.push_back(&n);
  n.out_edges_.push_back(&g); n.out_edges_.push_back(&f);
  int oo = nondet_int(); __CPROVER_assume(oo >= 0 && oo <= 2);      /* 0..2 trailing inputs are order-only; n itself is explicit or implicit */
  f.order_only_deps_ = oo; f.implicit_deps_ = nondet_bool() ? 1 : 0;
  if (f.implicit_deps_ + oo > 3) f.implicit_deps_ = 0;
  f.deps_missing_ = nondet_bool(); f.vf_phony = nondet_bool();
  n.dirty_ = nondet_bool(); m.dirty_ = nondet_bool(); k.dirty_ = nondet_bool();
  for (int i = 0; i < 3; i++) { ins[i]->mtime_ = nondet_long(); }
  bool m_dirty0 = m.dirty_, k_dirty0 = k.dirty_;
  plan.want_.insert(std::make_pair(&other, Plan::kWantToStart));
#if PRES
  int w = nondet_int(); __CPROVER_assume(w >= 0 && w <= 2);
  plan.want_.insert(std::make_pair(&f, (Plan::Want)w));
#else
  int w = -1;
#endif
  plan.wanted_edges_ = nondet_int(); plan.command_edges_ = nondet_int();
  __CPROVER_assume(plan.wanted_edges_ >= 1 && plan.wanted_edges_ < 1000 && plan.command_edges_ >= 1 && plan.command_edges_ < 1000);
  int wanted0 = plan.wanted_edges_, cmd0 = plan.command_edges_;
  vf_scan_says_dirty = nondet_bool();
  for (int i = 0; i < 4; i++) vf_rec_ret[i] = nondet_bool();
  std::string err;

  bool ok = plan.CleanNode(&scan, &n, &err);

  __CPROVER_assert(!n.dirty_, "post C03: the node whose restat command left it untouched is clean");
  __CPROVER_assert(m.dirty_ == m_dirty0 && k.dirty_ == k_dirty0, "post (frame): no other input's dirty flag is changed here");
  size_t nonoo = 3 - (size_t)oo;
  bool all_clean = true;
  for (size_t i = 0; i < 3; i++) if (i < nonoo && ins[i]->dirty_) all_clean = false;
  bool considered = w > 0 && !f.deps_missing_ && all_clean;
  bool prune = considered && !vf_scan_says_dirty;
  __CPROVER_assert(vf_scan_calls == (considered ? 1 : 0), "post C03: the outputs are re-examined exactly when the edge is wanted, its deps are known, and every non-order-only input is clean (a dirty order-only input alone does not matter)");
  if (considered) {
    __CPROVER_assert(vf_scan_edge == &f, "post: it is this edge that is re-examined");
    bool among = false, newest = true;
    for (size_t i = 0; i < 3; i++) if (i < nonoo) { if (vf_scan_mri == ins[i]) among = true; if (vf_scan_mri != 0 && ins[i]->mtime_ > vf_scan_mri->mtime_) newest = false; }
    __CPROVER_assert(among && newest, "post C01/C03: the outputs are compared with the newest non-order-only input");
  }
  if (prune) {
    int expect = 0; bool expect_ok = true;
    Node* outs[2] = { &p, &q };
    for (int i = 0; i < 2; i++)
      if (expect_ok) {
        __CPROVER_assert(expect < vf_rec_calls && vf_rec_nodes[expect] == outs[i], "post C03: every output of the pruned edge is cleaned in turn, so that everything that depended only on it is pruned too");
        if (!vf_rec_ret[expect]) expect_ok = false;
        expect++;
      }
    __CPROVER_assert(ok == expect_ok, "post: errors below are reported");
    if (ok) {
      __CPROVER_assert(vf_want_of(plan, &f) == (int)Plan::kWantNothing, "post C03: an edge all of whose real inputs are clean and whose outputs are up to date is no longer wanted (restat pruning)");
      __CPROVER_assert(plan.wanted_edges_ == wanted0 - 1, "post C06: wanted_edges_ follows");
      __CPROVER_assert(plan.command_edges_ == cmd0 - (f.vf_phony ? 0 : 1), "post C20: the progress total drops by one for a pruned command, not for a phony edge");
      __CPROVER_assert(status.vf_removed == ((with_builder && !f.vf_phony) ? 1 : 0), "post C20: the status total is told once");
    }
  } else {
    __CPROVER_assert(vf_want_of(plan, &f) == w, "post C01: an edge with a dirty real input, unknown deps or out-of-date outputs stays wanted");
    __CPROVER_assert(plan.wanted_edges_ == wanted0 && plan.command_edges_ == cmd0 && status.vf_removed == 0, "post (frame): the counters are unchanged");
    __CPROVER_assert(vf_rec_calls == 0, "post C01: nothing downstream of an edge that stays wanted is cleaned");
    __CPROVER_assert(ok, "post: no error");
  }
  __CPROVER_assert(vf_want_of(plan, &g) == -1 && vf_want_of(plan, &other) == (int)Plan::kWantToStart, "post (frame): edges outside the plan and unrelated entries are untouched");
#if PRES
  if (prune) __CPROVER_assert(0, "canary: pruned");
  if (considered && !prune) __CPROVER_assert(0, "canary: outputs still dirty");
#endif
  __CPROVER_assert(0, "canary: end of harness reachable");
}
