/* M4: contract of Plan::ScheduleWork (real) against the contracts of Pool and the ready queue (stubs in graph.h / planunit prelude). */
#include "plan_common.inc"
extern "C" void harness() {
  Plan* planp = new Plan((Builder*)0); Plan& plan = *planp;
  static Pool pool, pool2; pool.depth_ = nondet_bool() ? 0 : 1;
  static Edge e, other; static Node in0; static Edge prod;
  e.pool_ = &pool; other.pool_ = &pool2;
  e.vf_phony = nondet_bool();                                  /* phony statements can be bound to a pool too: they are scheduled like any other edge */
  prod.outputs_.push_back(&in0); in0.in_edge_ = &prod; prod.outputs_ready_ = nondet_bool();
  e.inputs_.push_back(&in0);
  int w = nondet_int(); __CPROVER_assume(w == (int)Plan::kWantToStart || w == (int)Plan::kWantToFinish);   /* pre (assert in the code): not kWantNothing */
  __CPROVER_assume(prod.outputs_ready_);                                                                    /* pre (C04): callers established readiness - checked at the call sites in M1 / M8 */
  plan.want_.insert(std::make_pair(&other, Plan::kWantToStart));
  plan.want_.insert(std::make_pair(&e, (Plan::Want)w));
  plan.ScheduleWork(plan.want_.find(&e));
  if (w == (int)Plan::kWantToFinish) {
    __CPROVER_assert(vf_started == 0 && pool.vf_scheduled == 0 && pool.vf_delayed == 0 && plan.ready_.n_ == 0, "post C06: an edge that was already scheduled is not scheduled again (each command runs at most once)");
  } else {
    __CPROVER_assert(vf_started == 1 && vf_started_edges[0] == &e, "post C06: the edge - and only it - is handed over exactly once");
    if (pool.depth_ != 0) __CPROVER_assert(pool.vf_delayed == 1 && pool.vf_retrieved == 1 && pool.vf_scheduled == 0 && plan.ready_.n_ == 0, "post C06: an edge of a finite pool goes through the pool's queue (the pool decides when its depth allows it)");
    else __CPROVER_assert(pool.vf_scheduled == 1 && plan.ready_.n_ == 1 && plan.ready_.d_[0] == &e && pool.vf_delayed == 0, "post C06: an edge of an unlimited pool becomes ready at once");
  }
  __CPROVER_assert(vf_want_of(plan, &e) == (int)Plan::kWantToFinish, "post C06: the edge is marked scheduled");
  __CPROVER_assert(vf_want_of(plan, &other) == (int)Plan::kWantToStart && pool2.vf_scheduled == 0 && pool2.vf_delayed == 0, "post (frame): no other edge or pool is touched");
  if (w == 1 && pool.depth_ != 0) __CPROVER_assert(0, "canary: delayed");
  if (w == 2) __CPROVER_assert(0, "canary: already scheduled");
  __CPROVER_assert(0, "canary: end of harness reachable");
}
