/* W1-W3: contracts of BuildLog::RecordCommand (OP 0), Restat (OP 1), Recompact (OP 2) over a log with three records (a, b, c).  C08: 'restat changes only the recorded mtimes',
 * 'recompaction keeps the latest record of every output that is still in the manifest or on disk', 'the last record per output wins'. */
static BuildLog* vf_bl = 0; static BuildLog::LogEntry* vf_ents[3];
TimeStamp DiskInterface::Stat(const std::string& path, std::string* err) const {
  DiskInterface* self = const_cast<DiskInterface*>(this);
  int which = -1; for (int i = 0; i < 3; i++) if (vf_ents[i] != 0 && vf_ents[i]->output.data() == path.data()) which = i;
  long r = self->vf_stat[self->vf_stats < 4 ? self->vf_stats : 3];
  if (self->vf_stats < 4) self->vf_stat_of[self->vf_stats] = which;
  self->vf_stats++;
  if (r == -1) *err = "stat error";
  return r;
}
bool BuildLogUser::IsPathDead(StringPiece s) const { int which = -1; for (int i = 0; i < 3; i++) if (vf_ents[i] != 0 && vf_ents[i]->output.data() == s.str_) which = i; return which >= 0 ? vf_dead[which] : false; }
extern "C" void harness() {
  BuildLog* blp = new BuildLog(); BuildLog& bl = *blp; vf_bl = blp;
  static BuildLog::LogEntry ea, eb, ec; vf_ents[0] = &ea; vf_ents[1] = &eb; vf_ents[2] = &ec;
  const char* names[3] = { "a", "b", "c" };
  uint64_t hash0[3]; long mt0[3]; int st0[3], en0[3];
  for (int i = 0; i < 3; i++) {
    vf_ents[i]->output = names[i];
    hash0[i] = nondet_ulong(); mt0[i] = nondet_long(); __CPROVER_assume(mt0[i] >= 0 && mt0[i] < 1000000); st0[i] = nondet_int(); en0[i] = nondet_int();
    vf_ents[i]->command_hash = hash0[i]; vf_ents[i]->mtime = mt0[i]; vf_ents[i]->start_time = st0[i]; vf_ents[i]->end_time = en0[i];
#if NENT > 0
    if (i < NENT) { bl.entries_.d_[bl.entries_.n_].first = StringPiece(vf_ents[i]->output); bl.entries_.d_[bl.entries_.n_].second = vf_UP<BuildLog::LogEntry>(vf_ents[i]); bl.entries_.n_++; }
#endif
  }
  bl.log_file_path_ = "log"; bl.vf_write_ok = nondet_bool(); bl.vf_open_ok = nondet_bool();
  vf_fopen_fails = nondet_bool(); vf_replace_ok = nondet_bool();
  std::string err;
#if OP == 0
  /* RecordCommand for an edge with outputs b (already in the log) and d (new) */
  static Edge e; static Node nb, nd; nb.path_ = "b"; nd.path_ = "d"; e.outputs_.push_back(&nb); e.outputs_.push_back(&nd); e.implicit_outs_ = nondet_bool() ? 1 : 0; e.vf_command = "cc";
  /* the log keys alias the entries' own storage; the node for b has equal text in other storage: lookups go by content */
  int st = nondet_int(), en = nondet_int(); long mt = nondet_long(); __CPROVER_assume(mt >= 0 && mt < 1000000);
  bool ok = bl.RecordCommand(&e, st, en, mt);
  if (ok) {
    BuildLog::LogEntry* lb = bl.LookupByOutput(nb.path_); BuildLog::LogEntry* ld = bl.LookupByOutput(nd.path_);
    __CPROVER_assert(lb != 0 && ld != 0, "post C08: after a command is recorded every one of its outputs - explicit and implicit - has a record");
    if (lb != 0 && ld != 0) {
      __CPROVER_assert(lb->command_hash == 77 && ld->command_hash == 77 && lb->mtime == mt && ld->mtime == mt && lb->start_time == st && ld->end_time == en,
                       "post C08: the latest record of an output is the one just written (last record wins), with the command hash, times and mtime given");
#if NENT >= 2
      __CPROVER_assert(lb == &eb, "post C08: an existing record is updated in place, not duplicated");
#endif
    }
    __CPROVER_assert(bl.entries_.size() == (size_t)(NENT >= 2 ? NENT + 1 : NENT + 2), "post C08: one record per output, the others untouched");
    __CPROVER_assert(bl.vf_written_n == 2 && vf_flushes == 2, "post C08: one line per output is appended and flushed (a crash loses at most the record being written)");
#if NENT >= 1
    __CPROVER_assert(ea.command_hash == hash0[0] && ea.mtime == mt0[0], "post (frame): records of other outputs are unchanged");
#endif
  } else {
    __CPROVER_assert(!bl.vf_open_ok || !bl.vf_write_ok, "post: RecordCommand fails only if the log cannot be opened or written");
  }
  if (ok) __CPROVER_assert(0, "canary: recorded");
#elif OP == 1
  /* Restat of a subset: SEL bit i selects entry i by name; SEL == 0 means "all" */
  DiskInterface disk; for (int i = 0; i < 4; i++) { long r = nondet_long(); __CPROVER_assume(r >= -1 && r < 1000000); disk.vf_stat[i] = r; disk.vf_stat_of[i] = -2; }
  char* outs[3]; int cnt = 0; static char na[2] = { 'a', 0 }, nb_[2] = { 'b', 0 }, nc[2] = { 'c', 0 }; char* all[3] = { na, nb_, nc };
  for (int i = 0; i < 3; i++) if ((SEL >> i) & 1) outs[cnt++] = all[i];
  bool ok = bl.Restat(StringPiece("log", 3), disk, cnt, outs, &err);
  bool stat_failed = false; for (int k = 0; k < 4; k++) if (k < disk.vf_stats && disk.vf_stat[k] == -1) stat_failed = true;
  for (int i = 0; i < NENT; i++) {
    bool selected = SEL == 0 || ((SEL >> i) & 1);
    __CPROVER_assert(vf_ents[i]->command_hash == hash0[i] && vf_ents[i]->start_time == st0[i] && vf_ents[i]->end_time == en0[i], "post C08: restat changes only recorded mtimes (hash and times of every record are unchanged)");
    if (!selected) __CPROVER_assert(vf_ents[i]->mtime == mt0[i], "post C08: restat of a subset leaves the records of the other outputs exactly as they were");
    int stat_k = -1; for (int k = 0; k < 4; k++) if (k < disk.vf_stats && disk.vf_stat_of[k] == i) stat_k = k;
    if (selected && ok) __CPROVER_assert(stat_k >= 0 && vf_ents[i]->mtime == disk.vf_stat[stat_k], "post C08: a selected output's record gets the mtime the file has now");
    if (!selected) __CPROVER_assert(stat_k < 0, "post C08: unselected outputs are not examined");
    if (ok) {
      int w = 0; for (int k = 0; k < 8; k++) if (k < bl.vf_written_n && bl.vf_written[k] == vf_ents[i]) w++;
      __CPROVER_assert(w == 1, "post C08: the rewritten log holds the record of EVERY output exactly once - selected or not (nothing is lost to later sessions)");
    }
  }
  if (ok) {
    __CPROVER_assert(bl.vf_written_n == NENT && vf_replace_calls == 1 && !stat_failed && !vf_fopen_fails, "post C08: the log is replaced once, by a complete file, and only if every step succeeded");
    for (int k = 0; k < 8; k++) if (k < bl.vf_written_n) __CPROVER_assert(bl.vf_written_file[k] == &vf_tmp_file, "post C08: the new content goes to the temporary file, the log itself is replaced atomically");
    __CPROVER_assert(vf_header_writes == 1, "post C08: the rewritten log starts with the version header");
  } else {
    __CPROVER_assert(vf_replace_calls == 0 || !vf_replace_ok, "post C08: on an error the existing log is not replaced by a partial file");
  }
  if (ok) __CPROVER_assert(0, "canary: restat done");
#else
  BuildLogUser user; for (int i = 0; i < 4; i++) user.vf_dead[i] = ((DEADMASK >> i) & 1) != 0;      /* which outputs are dead is fixed per run (keeps the map layout concrete) */
  bool ok = bl.Recompact(std::string("log"), user, &err);
  if (ok) {
    for (int i = 0; i < NENT; i++) {
      int w = 0; for (int k = 0; k < 8; k++) if (k < bl.vf_written_n && bl.vf_written[k] == vf_ents[i]) w++;
      bool still = bl.entries_.find(StringPiece(vf_ents[i]->output)) != bl.entries_.end();
      __CPROVER_assert(w == (user.vf_dead[i] ? 0 : 1), "post C08: recompaction writes the record of every output that is still in the manifest or on disk exactly once, and none of a dead one");
      __CPROVER_assert(still == !user.vf_dead[i], "post C08: the in-memory log agrees with the file: live records kept, dead ones dropped");
      __CPROVER_assert(vf_ents[i]->command_hash == hash0[i] && vf_ents[i]->mtime == mt0[i], "post C08: recompaction does not change any record");
    }
    __CPROVER_assert(vf_replace_calls == 1 && vf_header_writes == 1, "post C08: the log is replaced once, by a complete file with the version header");
  } else {
    __CPROVER_assert(vf_replace_calls == 0 || !vf_replace_ok, "post C08: on an error the existing log is not replaced by a partial file");
  }
  if (ok) __CPROVER_assert(0, "canary: recompacted");
#endif
  __CPROVER_assert(0, "canary: end of harness reachable");
}
