/* M9: contract of Plan::RefreshDyndepDependents (real; UnmarkDependents, DependencyScan::RecomputeDirty, AddSubTarget by contract): after dyndep information was loaded, every
 * collected dependent is re-scanned; a dependent that turns out dirty makes its (so far unwanted) statement wanted; validation targets found on the way are added to the build. */
#include "plan_common.inc"
static Node* vf_collect[2]; static int vf_collect_n = 0; static int vf_unmark_calls = 0;
void Plan::UnmarkDependents(const Node* node, set<Node*>* dependents) {      /* contract (M7): collects the outputs of the planned, scanned consumers downstream of `node` */
  (void)node; vf_unmark_calls++;
  for (int i = 0; i < 2; i++) if (i < vf_collect_n) dependents->insert(vf_collect[i]);
}
static int vf_ast_calls = 0; static const Node* vf_ast_node[3]; static bool vf_ast_ret = true;
bool Plan::AddSubTarget(const Node* node, const Node* dependent, string* err, set<Edge*>* dyndep_walk) {
  (void)dependent; (void)dyndep_walk;
  __CPROVER_assert(vf_ast_calls < 3, "model capacity"); vf_ast_node[vf_ast_calls++] = node;
  if (!vf_ast_ret) *err = "missing and no known rule";
  return vf_ast_ret;
}
extern "C" void harness() {
  Builder builder; Status status; builder.status_ = &status;
  Plan* planp = new Plan(&builder); Plan& plan = *planp;
  DependencyScan scan;
  static Node dd, a, b, v; static Edge ea, eb, ev;
  a.in_edge_ = &ea; b.in_edge_ = &eb; v.in_edge_ = &ev; ea.outputs_.push_back(&a); eb.outputs_.push_back(&b); ev.outputs_.push_back(&v);
  ev.outputs_ready_ = nondet_bool(); ea.vf_phony = nondet_bool();
  vf_collect[0] = &a; vf_collect[1] = &b; vf_collect_n = NDEP;
  int wa = nondet_int(), wb = nondet_int(); __CPROVER_assume(wa >= 0 && wa <= 2 && wb >= 0 && wb <= 2);
  plan.want_.insert(std::make_pair(&ea, (Plan::Want)wa)); plan.want_.insert(std::make_pair(&eb, (Plan::Want)wb));
  int wanted0 = (wa > 0) + (wb > 0); plan.wanted_edges_ = wanted0; plan.command_edges_ = 5;
  a.dirty_ = false; b.dirty_ = false;
  for (int i = 0; i < 3; i++) { vf_rd_ok[i] = nondet_bool(); vf_rd_makes_dirty[i] = nondet_bool(); vf_rd_validation[i] = 0; }
  bool with_validation = nondet_bool(); if (with_validation) vf_rd_validation[0] = &v;
  vf_ast_ret = nondet_bool();
  std::vector<Node*> dyndep_nodes; dyndep_nodes.push_back(&dd);
  std::string err;
  bool ok = plan.RefreshDyndepDependents(&scan, dyndep_nodes, &err);
  __CPROVER_assert(vf_unmark_calls == 1, "post C11/C17: the dependents of every loaded dyndep node are collected (and unmarked) first");
  if (ok) {
    __CPROVER_assert(vf_recompute_dirty_calls == NDEP, "post C11/C17: every collected dependent is re-scanned, once (the re-scan applies the new information and checks for new cycles)");
    Node* ns[2] = { &a, &b }; Edge* es[2] = { &ea, &eb }; int w0[2] = { wa, wb }; int now = 0;
    for (int i = 0; i < 2; i++) {
      int w = vf_want_of(plan, es[i]);
      bool rescanned = i < NDEP;
      if (rescanned && ns[i]->dirty_ && w0[i] == 0) __CPROVER_assert(w == (int)Plan::kWantToStart, "post C11: a statement whose output turns out dirty with the dyndep information becomes wanted, as if the information had been in the manifest");
      else __CPROVER_assert(w == w0[i], "post C11 (frame): other plan entries keep their state");
      if (w > 0) now++;
    }
    __CPROVER_assert(plan.wanted_edges_ == now, "post C06: wanted_edges_ counts the wanted statements");
    if (with_validation && NDEP >= 1 && !ev.outputs_ready_) __CPROVER_assert(vf_ast_calls == 1 && vf_ast_node[0] == &v, "post C01/C11: a validation target discovered by the re-scan is added to the build");
    else __CPROVER_assert(vf_ast_calls == 0, "post: nothing else is added to the plan");
  } else {
    __CPROVER_assert(!err.empty(), "post C11: the refresh fails only with a message (scan error, e.g. a dependency cycle closed by the dyndep file; missing source)");
  }
#if NDEP == 2
  if (ok && a.dirty_ && wa == 0) __CPROVER_assert(0, "canary: newly wanted");
#endif
  __CPROVER_assert(0, "canary: end of harness reachable");
}
