/* B1: contract of Builder::StartEdge (real) against the contracts of DiskInterface, Status and CommandRunner.  Clauses of C04 (directories and response
 * file in place when the command starts), C16 (response file written with exactly rspfile_content, before the command), C20 (started is reported once). */
void Builder::Cleanup() { vf_cleanups++; }
extern "C" void harness() {
  Builder b; BuildConfig cfg; DiskInterface disk; Status status; CommandRunner runner;
  b.config_p_ = &cfg; b.disk_interface_ = &disk; b.status_ = &status; b.command_runner_.p = &runner;
  b.lock_file_path_ = ".ninja_lock";
  int id_lock = vf_register_path(b.lock_file_path_);            /* id 0 */
  cfg.dry_run = nondet_bool();
  disk.vf_fail_mkdirs = nondet_bool(); disk.vf_fail_write = nondet_bool(); runner.vf_fail_start = nondet_bool();
  for (int i = 0; i < 4; i++) { long r = nondet_long(); __CPROVER_assume(r >= -1 && r < 1000000); disk.vf_stat_ret[i] = r; }
  static Edge e; static Node o[NOUT];
  const char* names[2] = { "d1/a", "d2/b" };
  int id_out[NOUT];
  for (int i = 0; i < NOUT; i++) { o[i].path_ = names[i]; e.outputs_.push_back(&o[i]); id_out[i] = vf_register_path(o[i].path_); }
  e.vf_phony = nondet_bool();
  bool has_depfile = nondet_bool(), has_rsp = nondet_bool();
  int id_dep = -2, id_rsp = -2;
  if (has_depfile) { e.vf_depfile = "dd/x.d"; id_dep = vf_register_path(e.vf_depfile); }
  if (has_rsp) { e.vf_rspfile = "r/x.rsp"; id_rsp = vf_register_path(e.vf_rspfile); }
  /* the response-file content is arbitrary, INCLUDING empty */
  { int len = nondet_int(); __CPROVER_assume(len >= 0 && len <= 2); for (int i = 0; i < 2; i++) if (i < len) e.vf_rspfile_content.push_back((char)nondet_int()); }
  e.vf_command = "cc";
  std::string err;
  bool ok = b.StartEdge(&e, &err);
  int started = vf_count(EV_START);
  if (e.vf_phony) {
    __CPROVER_assert(ok && vf_ev_n == 0, "post: a phony edge has no command: nothing is touched");
  } else {
    __CPROVER_assert(started <= 1, "post C06: the command is started at most once");
    int s = vf_first(EV_START);
    __CPROVER_assert(!(started == 1) || !disk.vf_prep_failed, "post C04: the command is started only if every output directory, the depfile directory and the response file could be prepared");
    if (started == 1) {
      __CPROVER_assert(s == vf_ev_n - 1, "post C04: starting the command is the last thing StartEdge does (everything it needs is in place before)");
      for (int i = 0; i < NOUT; i++) { int k = vf_find(EV_MKDIRS, id_out[i]); __CPROVER_assert(k >= 0 && k < s, "post C04: the directory of every output exists before the command starts"); }
      if (has_depfile) { int k = vf_find(EV_MKDIRS, id_dep); __CPROVER_assert(k >= 0 && k < s, "post C04: the directory of the depfile exists before the command starts"); }
      if (has_rsp) {
        int k = vf_find(EV_WRITE, id_rsp);
        __CPROVER_assert(k >= 0 && k < s, "post C04/C16: the response file is written before the command starts - whatever its content, including empty");
        if (k >= 0) __CPROVER_assert(vf_written_data == e.vf_rspfile_content && vf_writes_with_data == 1, "post C16: the response file holds exactly the evaluated rspfile_content");
      } else {
        __CPROVER_assert(vf_writes_with_data == 0, "post C16: no response file is written for a rule without rspfile");
      }
      __CPROVER_assert(ok == !runner.vf_fail_start, "post: StartEdge reports whether the command could be started");
      if (!ok) __CPROVER_assert(!err.empty(), "post C05: a command that cannot be started is reported");
    } else {
      __CPROVER_assert(!ok, "post C04: if a directory or the response file could not be prepared the command is not started and StartEdge fails");
    }
    __CPROVER_assert(vf_count(EV_STATUS_STARTED) == 1, "post C20: the command is reported started exactly once");
    __CPROVER_assert(b.running_edges_.find(&e) != b.running_edges_.end(), "post C20: the start time is remembered for the finish report");
    if (cfg.dry_run) __CPROVER_assert(vf_find(EV_WRITE, id_lock) < 0, "post C19: a dry run does not touch the lock file");
    if (started == 1) {
      if (cfg.dry_run) __CPROVER_assert(e.command_start_time_ == 0, "post C19: a dry run records no start time");
      else {
        int k = vf_find(EV_STAT, id_lock);
        __CPROVER_assert(k >= 0 && k < s && vf_find(EV_WRITE, id_lock) >= 0 && vf_find(EV_WRITE, id_lock) < k, "post C01: the start time is taken from the file system (lock file touched, then stat-ed) before the command starts");
        if (k >= 0) __CPROVER_assert(e.command_start_time_ == (vf_ev_num[k] == -1 ? 0 : vf_ev_num[k]), "post C01: command_start_time_ is that file-system time (0 = unknown)");
      }
    }
  }
  if (!e.vf_phony && started == 1 && has_rsp && e.vf_rspfile_content.empty()) __CPROVER_assert(0, "canary: empty response file");
  if (!e.vf_phony && started == 0) __CPROVER_assert(0, "canary: preparation failed");
  __CPROVER_assert(0, "canary: end of harness reachable");
}
