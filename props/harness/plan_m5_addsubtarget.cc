/* M5: contract of Plan::AddSubTarget (real; its recursive calls replaced by its own contract, R1) and of EdgeWanted (real). */
#include "plan_common.inc"
static int vf_rec_calls = 0; static const Node* vf_rec_nodes[4]; static const Node* vf_rec_dependent[4]; static int vf_rec_ret[4];   /* 0: true, 1: false & no error, 2: false & error */
static std::set<Edge*>* vf_rec_walk = 0; static bool vf_rec_walk_ok = true;
static bool vf_rec_AddSubTarget(Plan* self, const Node* node, const Node* dependent, string* err, set<Edge*>* dyndep_walk) {
  (void)self;
  __CPROVER_assert(vf_rec_calls < 4, "model capacity: recursive calls");
  vf_rec_nodes[vf_rec_calls] = node; vf_rec_dependent[vf_rec_calls] = dependent;
  if (dyndep_walk != vf_rec_walk) vf_rec_walk_ok = false;
  int r = vf_rec_ret[vf_rec_calls];
  vf_rec_calls++;
  if (r == 2) *err = "'x' missing and no known rule to make it";
  return r == 0;
}
static const char* vf_needle = 0;
static bool vf_contains1(const std::string& s) {      /* one parameter: loop ids with a comma cannot be named in --unwindset (F-l) */
  size_t n = 0; while (vf_needle[n]) n++;
  bool found = false;
  for (size_t i = 0; i < VF_STR_CAP; i++)
    if (i + n <= s.size()) { bool eq = true; for (size_t k = 0; k < n; k++) if (s[i + k] != vf_needle[k]) eq = false; if (eq) found = true; }
  return found;
}
static bool vf_contains(const std::string& s, const char* needle) { vf_needle = needle; return vf_contains1(s); }
extern "C" void harness() {
  Builder builder; Status status; builder.status_ = &status;
  bool with_builder = nondet_bool();
  Plan* planp = new Plan(with_builder ? &builder : (Builder*)0); Plan& plan = *planp;
  static Edge e, other; static Node n, dep, in[NIN];
  n.path_ = "out"; dep.path_ = "top";
  bool leaf = nondet_bool();
  n.in_edge_ = leaf ? (Edge*)0 : &e;
  n.dirty_ = nondet_bool(); n.generated_by_dep_loader_ = nondet_bool();
  e.outputs_.push_back(&n); e.outputs_ready_ = nondet_bool(); e.vf_phony = nondet_bool();
  for (int i = 0; i < NIN; i++) e.inputs_.push_back(&in[i]);
  bool has_dependent = nondet_bool();
  std::set<Edge*> walk; bool with_walk = nondet_bool();
  vf_rec_walk = with_walk ? &walk : (std::set<Edge*>*)0;
  plan.want_.insert(std::make_pair(&other, Plan::kWantToStart));
#if PRES
  int w = nondet_int(); __CPROVER_assume(w >= 0 && w <= 2);
  plan.want_.insert(std::make_pair(&e, (Plan::Want)w));
#else
  int w = -1;
#endif
  plan.wanted_edges_ = nondet_int(); plan.command_edges_ = nondet_int();
  __CPROVER_assume(plan.wanted_edges_ >= 0 && plan.wanted_edges_ < 1000 && plan.command_edges_ >= 0 && plan.command_edges_ < 1000);
  int wanted0 = plan.wanted_edges_, cmd0 = plan.command_edges_;
  for (int i = 0; i < 4; i++) { int r = nondet_int(); __CPROVER_assume(r >= 0 && r <= 2); vf_rec_ret[i] = r; }
  std::string err;

  bool ok = plan.AddSubTarget(&n, has_dependent ? &dep : (Node*)0, &err, vf_rec_walk);

  int wa = vf_want_of(plan, &e);
  if (leaf) {
    __CPROVER_assert(!ok, "post: a file without a producing edge adds nothing to the plan");
    if (n.dirty_ && !n.generated_by_dep_loader_) {
      __CPROVER_assert(!err.empty() && vf_contains(err, "'out'") && vf_contains(err, "missing and no known rule to make it"),
                       "post C05: a declared source file that is missing and has no rule is reported, by name, before anything is planned for it");
      if (has_dependent) __CPROVER_assert(vf_contains(err, "needed by 'top'"), "post C05: the diagnosis names the target that needs the missing file");
    } else {
      __CPROVER_assert(err.empty(), "post C05/C10: the missing-source diagnosis is for DECLARED sources only: a missing file known only from a depfile / deps log / dyndep file is not an error (it causes a rebuild instead)");
    }
    __CPROVER_assert(wa == w && plan.wanted_edges_ == wanted0 && vf_rec_calls == 0, "post (frame): nothing is planned for a leaf");
  } else if (e.outputs_ready_) {
    __CPROVER_assert(!ok && err.empty() && wa == w && plan.wanted_edges_ == wanted0 && vf_rec_calls == 0 && walk.empty(),
                     "post C02/C03: an edge whose outputs are already up to date is not planned and nothing below it is visited");
  } else if (with_walk && w == (int)Plan::kWantToFinish) {
    __CPROVER_assert(!ok && err.empty() && wa == w && plan.wanted_edges_ == wanted0 && vf_rec_calls == 0 && walk.empty(),
                     "post C06: an edge that is already scheduled is left alone by the dyndep walk (it is not scheduled twice)");
  } else {
    bool becomes_wanted = n.dirty_ && (w == -1 || w == (int)Plan::kWantNothing);
    __CPROVER_assert(wa == (becomes_wanted ? (int)Plan::kWantToStart : (w == -1 ? (int)Plan::kWantNothing : w)),
                     "post C01/C03: the edge is in the plan; it is wanted exactly if it already was or the requested output is dirty");
    __CPROVER_assert(plan.wanted_edges_ == wanted0 + (becomes_wanted ? 1 : 0), "post C06: wanted_edges_ counts each wanted edge once");
    __CPROVER_assert(plan.command_edges_ == cmd0 + ((becomes_wanted && !e.vf_phony) ? 1 : 0), "post C20: command_edges_ (the progress total) counts each wanted non-phony edge once");
    __CPROVER_assert(status.vf_added == ((becomes_wanted && !e.vf_phony && with_builder) ? 1 : 0), "post C20: the status total is told about each wanted command once");
    if (with_walk) __CPROVER_assert(walk.count(&e) == 1, "post C11: an edge reached by the dyndep walk is recorded for the readiness re-check");
    if (w != -1) {
      __CPROVER_assert(ok && vf_rec_calls == 0, "post: the inputs of an edge already in the plan are not walked again");
    } else {
      int expect = 0; bool expect_ok = true;
      for (int i = 0; i < NIN; i++)
        if (expect_ok) {
          __CPROVER_assert(expect < vf_rec_calls && vf_rec_nodes[expect] == &in[i] && vf_rec_dependent[expect] == &n,
                           "post C04/C05: every input (explicit, implicit, order-only) of a newly planned edge is planned, in order, as needed by this output");
          if (vf_rec_ret[expect] == 2) expect_ok = false;
          expect++;
        }
      __CPROVER_assert(vf_rec_calls == expect && vf_rec_walk_ok, "post: nothing else is visited, and the dyndep walk set is passed down");
      __CPROVER_assert(ok == expect_ok, "post C05: an error below (missing source) fails the whole target; 'nothing to do' below does not");
      if (!ok) __CPROVER_assert(!err.empty(), "post C05: failure carries the diagnosis");
    }
  }
  __CPROVER_assert(vf_want_of(plan, &other) == (int)Plan::kWantToStart, "post (frame): other plan entries are untouched");
  __CPROVER_assert(vf_started == 0, "post C05: planning starts no command");
  if (leaf && n.dirty_ && !n.generated_by_dep_loader_) __CPROVER_assert(0, "canary: missing source");
#if !PRES
  if (!leaf && !e.outputs_ready_ && w == -1 && ok) __CPROVER_assert(0, "canary: newly planned edge");
#endif
  __CPROVER_assert(0, "canary: end of harness reachable");
}
