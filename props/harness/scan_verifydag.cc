/* S2: contract of DependencyScan::VerifyDAG (real): with the visit stack n0 -> n1 -> n2 (each n(i+1) an input of n(i)'s edge; the DFS invariant) and `node` an output of the
 * edge of stack entry J reached as an input of the last entry's edge: a marked edge is reported as a cycle that starts and ends at `node` and lists exactly the stack entries
 * after J; an unmarked edge is no cycle. */
bool DependencyScan::RecomputeEdgesInputsDirty(const Node* node, EdgeInputsRange input_range, Node*& most_recent_input, bool& dirty,
                                               std::vector<Node*>* stack, std::vector<Node*>* validation_nodes, std::string* err) {
  (void)node; (void)input_range; (void)most_recent_input; (void)dirty; (void)stack; (void)validation_nodes; (void)err; return true;
}
static bool vf_rec_RecomputeNodeDirty(DependencyScan* self, Node* node, std::vector<Node*>* stack, std::vector<Node*>* validation_nodes, std::string* err) {
  (void)self; (void)node; (void)stack; (void)validation_nodes; (void)err; return true;
}
extern "C" void harness() {
  DependencyScan scan;
  static Edge e[3]; static Node n[3], other;
  const char* names[3] = { "n0", "n1", "n2" };
  std::vector<Node*> stack;
  for (int i = 0; i < 3; i++) { n[i].path_ = names[i]; n[i].in_edge_ = &e[i]; e[i].outputs_.push_back(&n[i]); e[i].mark_ = Edge::VisitInStack; stack.push_back(&n[i]); }
  for (int i = 0; i + 1 < 3; i++) e[i].inputs_.push_back(&n[i + 1]);
  /* `node`: the other output of e[J] (or n[J] itself), an input of e[2] */
  other.path_ = "x"; other.in_edge_ = &e[J]; e[J].outputs_.push_back(&other);
  Node* node = nondet_bool() ? &other : &n[J];
  e[2].inputs_.push_back(node);
  bool marked = nondet_bool();
  if (!marked) e[J].mark_ = nondet_bool() ? Edge::VisitNone : Edge::VisitDone;
  e[J].vf_phonycycle = nondet_bool();
  std::string err;
  bool ok = scan.VerifyDAG(node, &stack, &err);
  if (!marked) {
    __CPROVER_assert(ok && err.empty(), "post C17: an edge that is not on the call stack closes no cycle (acyclic graphs are never rejected)");
    __CPROVER_assert(stack.size() == 3 && stack.d_[0] == &n[0] && stack.d_[1] == &n[1] && stack.d_[2] == &n[2], "post (frame): the stack is untouched");
  } else {
    __CPROVER_assert(!ok, "post C17: reaching an edge that is on the call stack is a dependency cycle");
    std::string want("dependency cycle: ");
    want.append(node->path_);
    for (int i = J + 1; i < 3; i++) { want.append(" -> "); want.append(n[i].path_); }
    want.append(" -> "); want.append(node->path_);
    if (J == 2 && e[J].vf_phonycycle) want.append(" [-w phonycycle=err]");
    __CPROVER_assert(err == want, "post C17: the message spells out the actual cycle - it starts and ends at the node that closed it and lists exactly the statements on the path, in order");
  }
  if (marked) __CPROVER_assert(0, "canary: cycle");
  __CPROVER_assert(0, "canary: end of harness reachable");
}
