/* M7: contract of Plan::UnmarkDependents (real; recursion replaced by its own contract, R1): after dyndep information arrives, every planned
 * consumer of the node loses its "already scanned" mark and ALL its outputs are collected for re-scanning (so a cycle closed through any
 * output is seen by the re-scan - C17, and the new information is applied to everything downstream - C11). */
#include "plan_common.inc"
static int vf_rec_calls = 0; static const Node* vf_rec_nodes[6];
static void vf_rec_UnmarkDependents(Plan* self, const Node* node, set<Node*>* dependents) {
  (void)self; (void)dependents;
  __CPROVER_assert(vf_rec_calls < 6, "model capacity: recursive calls");
  vf_rec_nodes[vf_rec_calls++] = node;
}
extern "C" void harness() {
  Plan* planp = new Plan((Builder*)0); Plan& plan = *planp;
  static Edge e1, e2, other; static Node d, p, q, r;
  e1.inputs_.push_back(&d); e2.inputs_.push_back(&d); d.out_edges_.push_back(&e1); d.out_edges_.push_back(&e2);
  e1.outputs_.push_back(&p); e1.outputs_.push_back(&q); e1.implicit_outs_ = nondet_bool() ? 1 : 0;
  e2.outputs_.push_back(&r);
  int m1 = nondet_int(), m2 = nondet_int(); __CPROVER_assume(m1 >= 0 && m1 <= 2 && m2 >= 0 && m2 <= 2);
  e1.mark_ = (Edge::VisitMark)m1; e2.mark_ = (Edge::VisitMark)m2;
  plan.want_.insert(std::make_pair(&other, Plan::kWantToStart));
  if (PRES & 1) { int w = nondet_int(); __CPROVER_assume(w >= 0 && w <= 2); plan.want_.insert(std::make_pair(&e1, (Plan::Want)w)); }
  if (PRES & 2) { int w = nondet_int(); __CPROVER_assume(w >= 0 && w <= 2); plan.want_.insert(std::make_pair(&e2, (Plan::Want)w)); }
  std::set<Node*> deps;
  bool q_before = nondet_bool(); if (q_before) deps.insert(&q);
  plan.UnmarkDependents(&d, &deps);
  Node* outs1[2] = { &p, &q };
  int expect_rec = 0;
  if (PRES & 1) {
    __CPROVER_assert(e1.mark_ == Edge::VisitNone, "post C17/C11: every planned consumer of the node is unmarked, so the dirty scan (and its cycle check) visits it again");
    if (m1 != 0) {
      __CPROVER_assert(deps.count(&p) == 1 && deps.count(&q) == 1, "post C17/C11: ALL outputs of an unmarked edge - not just the first - are collected for re-scanning");
      bool rp = false, rq = false;
      for (int i = 0; i < 6; i++) if (i < vf_rec_calls) { if (vf_rec_nodes[i] == &p) rp = true; if (vf_rec_nodes[i] == &q) rq = true; }
      __CPROVER_assert(rp, "post C17/C11: the walk continues below every newly collected output");
      __CPROVER_assert(rq == !q_before, "post: an output that was already collected is not walked twice (termination on diamonds)");
      expect_rec += 1 + (q_before ? 0 : 1);
    } else {
      __CPROVER_assert(deps.count(&p) == 0 && deps.count(&q) == (q_before ? 1 : 0), "post: an edge the scan has not visited yet needs no re-scan");
    }
  } else {
    __CPROVER_assert(e1.mark_ == (Edge::VisitMark)m1 && deps.count(&p) == 0, "post (frame): an edge outside the plan is left alone");
  }
  if (PRES & 2) {
    __CPROVER_assert(e2.mark_ == Edge::VisitNone, "post C17/C11: every planned consumer of the node is unmarked (second consumer)");
    if (m2 != 0) { __CPROVER_assert(deps.count(&r) == 1, "post C17/C11: its output is collected"); expect_rec += 1; }
  } else {
    __CPROVER_assert(e2.mark_ == (Edge::VisitMark)m2 && deps.count(&r) == 0, "post (frame): an edge outside the plan is left alone (second consumer)");
  }
  __CPROVER_assert(vf_rec_calls == expect_rec, "post: the walk visits exactly the newly collected outputs");
  __CPROVER_assert(0, "canary: end of harness reachable");
}
