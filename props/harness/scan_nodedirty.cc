/* S1: contract of DependencyScan::RecomputeNodeDirty (real; its recursive call for the dyndep node by contract, R1) for a node with an in-edge, against the callee contracts. */
static bool vf_rec_ret = true; static int vf_rec_calls = 0;
static bool vf_rec_RecomputeNodeDirty(DependencyScan* self, Node* node, std::vector<Node*>* stack, std::vector<Node*>* validation_nodes, std::string* err) {
  (void)self; (void)stack; (void)validation_nodes; vf_rec_calls++; vf_t(T_RECURSE, (void*)node, 0); if (!vf_rec_ret) *err = "error below"; return vf_rec_ret;
}
static Edge* vf_edge = 0; static Node* vf_node = 0; static std::vector<Node*>* vf_stack = 0;
bool DependencyScan::RecomputeEdgesInputsDirty(const Node* node, EdgeInputsRange input_range, Node*& most_recent_input, bool& dirty,
                                               std::vector<Node*>* stack, std::vector<Node*>* validation_nodes, std::string* err) {
  (void)validation_nodes;
  int w = input_range.vf_which;
  __CPROVER_assert(input_range.edge_ == vf_edge && node == vf_node, "pre RecomputeEdgesInputsDirty: the inputs of this node's edge");
  __CPROVER_assert(vf_edge->mark_ == Edge::VisitInStack, "pre RecomputeEdgesInputsDirty (C17): the edge is marked as being on the call stack while its inputs are visited (so that a path back to it is seen as a cycle)");
  __CPROVER_assert(stack == vf_stack && stack->size() > 0 && stack->d_[stack->size() - 1] == vf_node, "pre RecomputeEdgesInputsDirty (C17): the node is on top of the visit stack (so that the cycle can be spelled out)");
  vf_t(T_INPUTS, (void*)0, w);
  if (!vf_inputs_ret[w]) { *err = "error below"; return false; }
  if (vf_inputs_unready[w]) vf_edge->outputs_ready_ = false;
  if (vf_inputs_dirty[w]) dirty = true;
  if (vf_inputs_mri[w] != 0) most_recent_input = vf_inputs_mri[w];
  return true;
}
extern "C" void harness() {
  DependencyScan scan; BuildLog bl; DiskInterface disk; scan.build_log_ = &bl; scan.disk_interface_ = &disk;
  static Edge e; static Node out0, out1, in0, dep0, dd, val0;
  vf_edge = &e; vf_node = &out0;
  e.outputs_.push_back(&out0); e.outputs_.push_back(&out1); out0.in_edge_ = &e; out1.in_edge_ = &e;
  e.inputs_.push_back(&in0);
  if (nondet_bool()) e.validations_.push_back(&val0);
  bool has_dyndep = nondet_bool();
  if (has_dyndep) { e.dyndep_ = &dd; dd.dyndep_pending_ = nondet_bool(); static Edge dde; dd.in_edge_ = nondet_bool() ? &dde : (Edge*)0; dde.outputs_ready_ = nondet_bool(); }
  e.vf_phony = nondet_bool();
  e.deps_loaded_ = nondet_bool();                       /* first visit in this process, or re-visit after a dyndep load */
  bool first_visit = !e.deps_loaded_;
  { int m = nondet_int(); __CPROVER_assume(m >= 0 && m <= 1); e.mark_ = m == 0 ? Edge::VisitNone : Edge::VisitDone; }      /* not on the stack: VerifyDAG's case is S2 */
  bool was_done = e.mark_ == Edge::VisitDone;
  out0.exists_ = nondet_bool() ? Node::ExistenceStatusUnknown : Node::ExistenceStatusExists; out1.exists_ = Node::ExistenceStatusExists;
  /* on a re-visit (after a dyndep load unmarked the statement) the outputs may already be dirty from the first scan */
  bool was_dirty = !first_visit && nondet_bool();
  out0.dirty_ = was_dirty; out1.dirty_ = was_dirty;
  for (int i = 0; i < 4; i++) { long r = nondet_long(); __CPROVER_assume(r >= -1 && r < 1000); vf_stat_answer[i] = r; }
  for (int w = 0; w < 2; w++) { vf_inputs_dirty[w] = nondet_bool(); vf_inputs_unready[w] = nondet_bool(); vf_inputs_ret[w] = nondet_bool(); }
  vf_inputs_mri[0] = nondet_bool() ? &in0 : (Node*)0; vf_inputs_mri[1] = nondet_bool() ? &dep0 : (Node*)0;
  vf_out_all = nondet_bool(); vf_out_depfile = nondet_bool();
  { int m = nondet_int(); __CPROVER_assume(m >= 0 && m <= 2); vf_loaddeps_mode = m; }
  { int m = nondet_int(); __CPROVER_assume(m >= 0 && m <= 2); vf_loaddeps_try_mode = m; }
  vf_rec_ret = nondet_bool(); vf_dyndep_ret = nondet_bool();
  std::vector<Node*> stack, validations; vf_stack = &stack;
  static Node below; stack.push_back(&below);
  std::string err;

  bool ok = scan.RecomputeNodeDirty(&out0, &stack, &validations, &err);

  if (was_done) {
    __CPROVER_assert(ok && vf_t_n == 0 && out0.dirty_ == was_dirty && out1.dirty_ == was_dirty, "post C02: an edge that was already examined in this scan is not examined again (each statement is decided once)");
  } else if (ok) {
    __CPROVER_assert(e.mark_ == Edge::VisitDone, "post C17: the edge is marked finished when the visit returns");
    __CPROVER_assert(stack.size() == 1 && stack.d_[0] == &below, "post C17: the visit stack is restored");
    __CPROVER_assert(e.deps_loaded_, "post: the edge counts as visited");
    __CPROVER_assert(validations.size() == e.validations_.size(), "post C01: the validation targets of the statement are collected for the build");
    int t_in0 = -1; for (int i = VF_T_CAP - 1; i >= 0; i--) if (i < vf_t_n && vf_t_kind[i] == T_INPUTS && vf_t_num[i] == 0) t_in0 = i;
    __CPROVER_assert(t_in0 >= 0, "post C01/C17: the declared inputs are examined (visited) on every visit of an unfinished statement - also a re-visit after a dyndep load, whose walk is the cycle check");
    bool dirty_decl = vf_inputs_dirty[0];
    bool out_checked = vf_t_count(T_OUT_ALL) == 1;
    __CPROVER_assert(out_checked == !dirty_decl, "post C01: unless an input already makes it dirty, the outputs are compared with the most recent input and the log");
    if (out_checked) __CPROVER_assert(vf_t_ptr[vf_t_first(T_OUT_ALL)] == (void*)vf_inputs_mri[0], "post C01: ... with the most recent input the input scan found");
    bool dirty = dirty_decl || (out_checked && vf_out_all);
    if (first_visit) {
      /* C10: the recorded (discovered) dependencies are inputs of the statement like declared implicit inputs - "whatever else is out of date at the same time" */
      int ld = vf_t_count(T_LOADDEPS);
      if (!dirty) __CPROVER_assert(ld == 1, "post C10/C01: on the first visit of a statement that is clean so far, the dependencies recorded for it (depfile / deps log) are loaded into its inputs");
      else __CPROVER_assert(ld == 1, "post C10/C01: ... ALSO when a declared input or an output already makes the statement dirty ('whatever else is out of date at the same time': "
                                     "a generated header must still be brought up to date first, and restat pruning must still see the discovered dependency)");
      if (ld == 1) {
        if (vf_loaddeps_mode == 1) {
          __CPROVER_assert(e.deps_missing_, "post C10: missing or outdated dependency information makes the statement dirty (rebuild to regenerate it), not an error");
          dirty = true;
        } else if (vf_loaddeps_mode == 0) {
          int t_in1 = -1; for (int i = VF_T_CAP - 1; i >= 0; i--) if (i < vf_t_n && vf_t_kind[i] == T_INPUTS && vf_t_num[i] == 1) t_in1 = i;
          __CPROVER_assert(t_in1 >= 0, "post C10: the loaded dependencies are examined like declared inputs (visited, dirtiness and mtime taken into account)");
          bool before = dirty;
          dirty = dirty || vf_inputs_dirty[1];
          if (!dirty && vf_inputs_mri[1] != 0 && vf_inputs_mri[1] != vf_inputs_mri[0]) {
            __CPROVER_assert(vf_t_count(T_OUT_DEPFILE) == 1 && vf_t_ptr[vf_t_first(T_OUT_DEPFILE)] == (void*)vf_inputs_mri[1], "post C10: a discovered dependency newer than every declared input is compared with the outputs");
            dirty = vf_out_depfile;
          }
          (void)before;
        }
      } else {
        /* the code took the LoadDepsTry route: follow it so that the remaining clauses are still meaningful */
        if (vf_t_count(T_LOADDEPS_TRY) == 1 && vf_loaddeps_try_mode == 1) dirty = true;
      }
    } else {
      __CPROVER_assert(vf_t_count(T_LOADDEPS) == 0 && vf_t_count(T_LOADDEPS_TRY) == 0, "post: dependencies are loaded once per statement");
    }
    __CPROVER_assert(out0.dirty_ == (dirty || was_dirty) && out1.dirty_ == (dirty || was_dirty), "post C01/C02/C10: every output of a dirty statement is marked dirty (also when the cause is a discovered dependency or missing dependency information), and no output of a clean one");
    bool unready = vf_inputs_unready[0] || (first_visit && vf_t_count(T_LOADDEPS) == 1 && vf_loaddeps_mode == 0 && vf_inputs_unready[1]);
    bool expect_ready = !unready && !(dirty && !(e.vf_phony && e.inputs_.empty()));
    __CPROVER_assert(e.outputs_ready_ == expect_ready, "post C04/C02: the outputs count as ready exactly if the statement is clean and every producer of its inputs is ready");
    if (out0.exists_ == Node::ExistenceStatusUnknown) {}
  } else {
    __CPROVER_assert(!err.empty(), "post C13: the scan fails only with a message (stat error, error below, depfile error, dyndep error)");
  }
  if (ok && !was_done && first_visit && vf_inputs_dirty[0]) __CPROVER_assert(0, "canary: first visit, dirty through a declared input");
  if (ok && !was_done && out0.dirty_) __CPROVER_assert(0, "canary: dirty");
  if (ok && !was_done && !out0.dirty_ && first_visit) __CPROVER_assert(0, "canary: clean first visit");
  __CPROVER_assert(0, "canary: end of harness reachable");
}
