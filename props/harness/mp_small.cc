/* MP: contracts of the small statement parsers of ManifestParser (real text) against the Lexer / Parser / BindingEnv / State contracts.
 * OP 0: two consecutive file statements (include / subninja, any combination)   OP 1: a rule block   OP 2: a default statement */
extern "C" void harness() {
  State st; FileReader fr; ManifestParserOptions opt;
  ManifestParser* mp = new ManifestParser(&st, &fr, opt);
  static BindingEnv file_scope; mp->env_ = nondet_bool() ? &st.bindings_ : &file_scope;       /* the scope of the file being parsed (top level, or a subninja's own scope) */
  BindingEnv* scope = mp->env_;
  for (int i = 0; i < 4; i++) { vf_expect_ok[i] = nondet_bool(); vf_ident_ok[i] = nondet_bool(); vf_value_ok[i] = nondet_bool(); vf_value_empty[i] = nondet_bool(); vf_peek_script[i] = nondet_bool();
                                vf_path_ok[i] = nondet_bool(); vf_path_empty[i] = nondet_bool(); vf_default_ok[i] = nondet_bool(); }
  for (int i = 0; i < 3; i++) vf_load_ok[i] = nondet_bool();
  std::string err;
#if OP == 0
  vf_path_text[0] = "a.ninja"; vf_path_text[1] = "b.ninja"; vf_path_empty[0] = false; vf_path_empty[1] = false;
  bool ns1 = nondet_bool(), ns2 = nondet_bool();
  bool ok1 = mp->ParseFileInclude(ns1, &err);
  int loads1 = vf_loads;
  bool ok2 = false;
  if (ok1) ok2 = mp->ParseFileInclude(ns2, &err);
  if (loads1 >= 1) {
    if (!ns1) __CPROVER_assert(vf_load_env[0] == scope, "post C12: `include` parses the file in the CURRENT scope (its variables and rules are visible to the including file)");
    else __CPROVER_assert(vf_load_env[0] != scope && vf_load_env[0] != 0 && vf_load_env[0]->parent_ == scope, "post C12: `subninja` parses the file in a NEW scope whose parent is the current scope");
    std::string want("a.ninja"); __CPROVER_assert(vf_load_path[0] == want && vf_load_parent[0] == (void*)&mp->lexer_, "post C12: the named file is loaded, with this file as the place errors are reported against");
  }
  if (ok1 && vf_loads >= 2) {
    if (!ns2) __CPROVER_assert(vf_load_env[1] == scope, "post C12: a later `include` is parsed in the current scope too - also after a `subninja` in the same file");
    else __CPROVER_assert(vf_load_env[1] != scope && vf_load_env[1] != 0 && vf_load_env[1]->parent_ == scope && (!ns1 || vf_load_env[1] != vf_load_env[0]), "post C12: every `subninja` gets its own new scope");
  }
  __CPROVER_assert(mp->env_ == scope, "post C12: the scope of the including file itself is unchanged");
  if (ok1) __CPROVER_assert(loads1 == 1 && vf_load_ok[0], "post C12: the statement succeeds only if the file was loaded and parsed");
  else __CPROVER_assert(!err.empty(), "post C12: a failing statement carries a diagnostic");
  if (ok1 && ok2 && ns1 && !ns2) __CPROVER_assert(0, "canary: include after subninja");
#elif OP == 1
  vf_ident_script[0] = "cc";
  /* up to three bindings; the key of binding i is chosen per run: KEYS digit i:  0 command, 1 description, 2 rspfile, 3 rspfile_content, 4 a non-reserved name */
  int kd[3] = { KEYS % 10, (KEYS / 10) % 10, (KEYS / 100) % 10 };
  for (int i = 0; i < 3; i++) {
    if (kd[i] == 0) vf_ident_script[i + 1] = "command"; else if (kd[i] == 1) vf_ident_script[i + 1] = "description"; else if (kd[i] == 2) vf_ident_script[i + 1] = "rspfile";
    else if (kd[i] == 3) vf_ident_script[i + 1] = "rspfile_content"; else vf_ident_script[i + 1] = "cflags";
  }
  std::string cc_name("cc");
  scope->vf_has_rule = nondet_bool(); Rule* existing = new Rule(cc_name); scope->vf_existing = existing;
  bool ok = mp->ParseRule(&err);
  /* what the block contained, as far as it was read */
  int nb = 0; bool seen[5] = { false, false, false, false, false }; bool nonempty[5] = { false, false, false, false, false };
  bool read_error = !vf_ident_ok[0] || !vf_expect_ok[0];
  bool stop = false;
  int ex = 1, id = 1, va = 0;
  for (int i = 0; i < 3; i++) {
    if (stop || read_error || scope->vf_has_rule) break;
    if (!vf_peek_script[i]) { stop = true; break; }
    if (!vf_ident_ok[id < 4 ? id : 3]) { read_error = true; break; } id++;
    if (!vf_expect_ok[ex < 4 ? ex : 3]) { read_error = true; break; } ex++;
    if (!vf_value_ok[va < 4 ? va : 3]) { read_error = true; break; }
    if (kd[i] == 4) { read_error = true; seen[4] = true; break; }
    seen[kd[i]] = true; nonempty[kd[i]] = !vf_value_empty[va < 4 ? va : 3]; va++;
    nb++;
  }
  bool well_formed = !read_error && !scope->vf_has_rule && nonempty[0] && (nonempty[2] == nonempty[3]);
  __CPROVER_assert(ok == well_formed, "post C12: a rule block is accepted exactly if its name is new in this scope, every variable is one of the reserved rule variables, "
                                      "`command` is given (non-empty), and rspfile / rspfile_content come together");
  if (ok) __CPROVER_assert(vf_addrule_calls == 1 && vf_added_to == scope && vf_added_rule != 0 && vf_added_rule->name_ == cc_name, "post C12: the rule is added, once, to the scope of the file being parsed");
  else { __CPROVER_assert(vf_addrule_calls == 0, "post C12: a rejected rule is not added"); __CPROVER_assert(!err.empty(), "post C12: rejection carries a diagnostic"); }
  if (seen[4] && !ok && vf_errors == 1) { std::string want("unexpected variable 'cflags'"); __CPROVER_assert(vf_last_error == want, "post C12: a non-reserved rule variable is named in the diagnostic"); }
  if (ok) __CPROVER_assert(0, "canary: rule accepted");
  if (seen[4]) __CPROVER_assert(0, "canary: non-reserved variable");
#else
  vf_path_text[0] = "t1"; vf_path_text[1] = "t2";
  bool ok = mp->ParseDefault(&err);
  if (ok) {
    __CPROVER_assert(vf_defaults >= 1, "post C12: a default statement names at least one target");
    for (int i = 0; i < 4; i++) if (i < vf_defaults) __CPROVER_assert(vf_default_ok[i], "post C12: every named default target was accepted by the state (unknown targets are rejected)");
    __CPROVER_assert(vf_canon_calls == vf_defaults, "post C12: every default path is canonicalised before lookup");
  } else __CPROVER_assert(!err.empty(), "post C12: rejection carries a diagnostic");
  if (ok && vf_defaults == 2) __CPROVER_assert(0, "canary: two defaults");
#endif
  __CPROVER_assert(0, "canary: end of harness reachable");
}
