/* M1: contract of Plan::EdgeMaybeReady (real, with the real Edge::AllInputsReady) against the contracts of ScheduleWork and EdgeFinished (stubs).
 * NIN inputs (-DK), each a source file or the output of a producer with a symbolic finished flag; any split into explicit/implicit/order-only. */
#include "plan_common.inc"
static int vf_sw_calls = 0, vf_ef_calls = 0; static Edge* vf_sw_edge = 0; static Edge* vf_ef_edge = 0; static bool vf_ef_ret = true;
void Plan::ScheduleWork(std::map<Edge*, Want>::iterator want_e) {
  __CPROVER_assert(want_e != want_.end(), "pre ScheduleWork: a valid plan entry");
  __CPROVER_assert(want_e->second != kWantNothing, "pre ScheduleWork (C06): only a wanted edge is scheduled");
  __CPROVER_assert(vf_spec_all_inputs_ready(want_e->first), "pre ScheduleWork (C04): every producer of each input (explicit, implicit, order-only) has finished");
  vf_sw_calls++; vf_sw_edge = want_e->first;
}
bool Plan::EdgeFinished(Edge* edge, EdgeResult result, string* err) {
  __CPROVER_assert(want_.find(edge) != want_.end(), "pre EdgeFinished: the edge is in the plan");
  __CPROVER_assert(result == kEdgeSucceeded, "pre EdgeFinished (internal call): passing an edge through counts as success");
  __CPROVER_assert(want_.find(edge)->second == kWantNothing, "pre EdgeFinished (C04/C06): only an edge that needs no command is passed through without running");
  __CPROVER_assert(vf_spec_all_inputs_ready(edge), "pre EdgeFinished (C04): an edge is marked finished only when every producer of its inputs has finished");
  vf_ef_calls++; vf_ef_edge = edge;
  if (!vf_ef_ret) *err = "dyndep error";
  return vf_ef_ret;
}
extern "C" void harness() {
  Plan* planp = new Plan((Builder*)0); Plan& plan = *planp;
  static Edge c, other, prod[NIN]; static Node in[NIN];
  for (int i = 0; i < NIN; i++) {
    prod[i].outputs_.push_back(&in[i]); prod[i].outputs_ready_ = nondet_bool();
    in[i].in_edge_ = nondet_bool() ? &prod[i] : (Edge*)0;
    c.inputs_.push_back(&in[i]);
  }
  int oo = nondet_int(), im = nondet_int();
  __CPROVER_assume(oo >= 0 && oo <= NIN && im >= 0 && im <= NIN && oo + im <= NIN);
  c.order_only_deps_ = oo; c.implicit_deps_ = im;
  int w = nondet_int(); __CPROVER_assume(w >= 0 && w <= 2);
  plan.want_.insert(std::make_pair(&other, Plan::kWantToStart));
  plan.want_.insert(std::make_pair(&c, (Plan::Want)w));
  vf_ef_ret = nondet_bool();
  std::string err;
  bool ok = plan.EdgeMaybeReady(plan.want_.find(&c), &err);
  bool ready = vf_spec_all_inputs_ready(&c);
  if (!ready) {
    __CPROVER_assert(vf_sw_calls == 0 && vf_ef_calls == 0, "post C04: an edge with an unfinished producer is neither scheduled nor passed through");
    __CPROVER_assert(ok, "post: waiting is not an error");
  } else if (w == (int)Plan::kWantNothing) {
    __CPROVER_assert(vf_ef_calls == 1 && vf_ef_edge == &c && vf_sw_calls == 0, "post C04: an edge that needs no command and whose inputs are ready is passed through (its dependents may proceed)");
    __CPROVER_assert(ok == vf_ef_ret, "post: the result of the pass-through is reported");
  } else {
    __CPROVER_assert(vf_sw_calls == 1 && vf_sw_edge == &c && vf_ef_calls == 0, "post C06: a wanted edge whose inputs are all ready is scheduled at once (no idle slot), and it is this edge");
    __CPROVER_assert(ok, "post: scheduling is not an error");
  }
  __CPROVER_assert(vf_want_of(plan, &c) == w && vf_want_of(plan, &other) == (int)Plan::kWantToStart, "post (frame): EdgeMaybeReady itself does not change want_");
  if (ready && w == 0) __CPROVER_assert(0, "canary: pass-through");
  if (ready && w == 1) __CPROVER_assert(0, "canary: schedule");
  if (!ready) __CPROVER_assert(0, "canary: not ready");
  __CPROVER_assert(0, "canary: end of harness reachable");
}
