/* M8: contract of Plan::ScheduleInitialEdges (real, with the real Edge::AllInputsReady) against the contracts of ScheduleWork (stub) and Pool. */
#include "plan_common.inc"
static int vf_sw_calls = 0; static Edge* vf_sw_edges[4];
void Plan::ScheduleWork(std::map<Edge*, Want>::iterator want_e) {
  __CPROVER_assert(want_e != want_.end(), "pre ScheduleWork: a valid plan entry");
  __CPROVER_assert(want_e->second != kWantNothing, "pre ScheduleWork (C06): only a wanted edge is scheduled");
  __CPROVER_assert(vf_spec_all_inputs_ready(want_e->first), "pre ScheduleWork (C04): every producer of each input (explicit, implicit, order-only) has finished");
  __CPROVER_assert(vf_sw_calls < 4, "model capacity"); vf_sw_edges[vf_sw_calls++] = want_e->first;
}
extern "C" void harness() {
  Plan* planp = new Plan((Builder*)0); Plan& plan = *planp;
  static Pool pa, pb; pa.depth_ = nondet_bool() ? 0 : 2; pb.depth_ = nondet_bool() ? 0 : 1;
  static Edge e0_, e1_, e2_, p0_, p1_, p2_; static Node i0_, i1_, i2_, src; Edge* eP[3] = {&e0_, &e1_, &e2_}; Edge* pP[3] = {&p0_, &p1_, &p2_}; Node* iP[3] = {&i0_, &i1_, &i2_};
  int w[NE];
  for (int i = 0; i < NE; i++) {
    pP[i]->outputs_.push_back(iP[i]); iP[i]->in_edge_ = nondet_bool() ? pP[i] : (Edge*)0; pP[i]->outputs_ready_ = nondet_bool();
    eP[i]->inputs_.push_back(&src); eP[i]->inputs_.push_back(iP[i]); eP[i]->order_only_deps_ = nondet_bool() ? 1 : 0;
    eP[i]->pool_ = (i == NE - 1) ? &pb : &pa; eP[i]->id_ = (size_t)i;
    w[i] = nondet_int(); __CPROVER_assume(w[i] >= 0 && w[i] <= 1);      /* before the build starts nothing has been scheduled yet */
    plan.want_.insert(std::make_pair(eP[i], (Plan::Want)w[i]));
  }
  plan.ScheduleInitialEdges();
  int exp_sw = 0, exp_delay_a = 0, exp_delay_b = 0;
  for (int i = 0; i < NE; i++) {
    bool startable = w[i] == (int)Plan::kWantToStart && vf_spec_all_inputs_ready(eP[i]);
    bool in_sw = false, in_started = false;
    for (int k = 0; k < 4; k++) if (k < vf_sw_calls && vf_sw_edges[k] == eP[i]) in_sw = true;
    for (int k = 0; k < 8; k++) if (k < vf_started && vf_started_edges[k] == eP[i]) in_started = true;
    Pool* pl = eP[i]->pool_;
    if (startable && pl->depth_ == 0) { __CPROVER_assert(in_sw && !in_started, "post C06: a wanted edge with all inputs ready is scheduled at the start of the build (unlimited pool)"); exp_sw++; }
    else if (startable) { __CPROVER_assert(in_started && !in_sw, "post C06: a wanted edge with all inputs ready is queued in its finite pool at the start of the build"); if (pl == &pa) exp_delay_a++; else exp_delay_b++; }
    else __CPROVER_assert(!in_sw && !in_started, "post C04: an edge that is not wanted, or has an unfinished producer, is not started at the start of the build");
  }
  __CPROVER_assert(vf_sw_calls == exp_sw && pa.vf_delayed == exp_delay_a && pb.vf_delayed == exp_delay_b, "post C06: each startable edge is handed over exactly once");
  __CPROVER_assert(pa.vf_retrieved == (exp_delay_a > 0 ? 1 : 0) && pb.vf_retrieved == (exp_delay_b > 0 ? 1 : 0), "post C06: every pool that received edges releases what its depth allows, once");
#if NE > 2
  if (exp_delay_a == 2) __CPROVER_assert(0, "canary: two edges queued in one pool");
#endif
  if (exp_sw >= 1) __CPROVER_assert(0, "canary: direct scheduling");
  __CPROVER_assert(0, "canary: end of harness reachable");
}
