/* M2: contract of Plan::NodeFinished (real) against the contract of EdgeMaybeReady (stub): every consumer of the finished node that is in the
 * plan gets exactly one readiness check, in order; edges outside the plan are not touched; the first failure stops the walk. */
#include "plan_common.inc"
static int vf_emr_calls = 0; static Edge* vf_emr_edges[4]; static bool vf_emr_ret[4];
static Node* vf_node = 0;
bool Plan::EdgeMaybeReady(std::map<Edge*, Want>::iterator want_e, string* err) {
  __CPROVER_assert(want_e != want_.end(), "pre EdgeMaybeReady: a valid plan entry");
  bool consumer = false;
  for (size_t i = 0; i < VF_VEC_CAP; i++) if (i < want_e->first->inputs_.size() && want_e->first->inputs_.d_[i] == vf_node) consumer = true;
  __CPROVER_assert(consumer, "pre EdgeMaybeReady: the edge consumes the node that just finished");
  __CPROVER_assert(vf_emr_calls < 4, "model capacity: readiness checks");
  vf_emr_edges[vf_emr_calls] = want_e->first;
  bool r = vf_emr_ret[vf_emr_calls];
  vf_emr_calls++;
  if (!r) *err = "error";
  return r;
}
extern "C" void harness() {
  Plan* planp = new Plan((Builder*)0); Plan& plan = *planp;
  static Edge a, b, cc, producer; static Node n;
  Edge* es[3] = { &a, &b, &cc };
  producer.outputs_.push_back(&n); producer.outputs_ready_ = true; n.in_edge_ = nondet_bool() ? &producer : (Edge*)0;
  vf_node = &n;
  for (int i = 0; i < 3; i++) { es[i]->inputs_.push_back(&n); n.out_edges_.push_back(es[i]); }
  for (int i = 0; i < 3; i++) if ((PRES >> i) & 1) { int w = nondet_int(); __CPROVER_assume(w >= 0 && w <= 2); plan.want_.insert(std::make_pair(es[i], (Plan::Want)w)); }
  for (int i = 0; i < 4; i++) vf_emr_ret[i] = nondet_bool();
  std::string err;
  bool ok = plan.NodeFinished(&n, &err);
  int expect = 0; bool expect_ok = true;
  for (int i = 0; i < 3; i++)
    if (((PRES >> i) & 1) && expect_ok) {
      __CPROVER_assert(expect < vf_emr_calls && vf_emr_edges[expect] == es[i], "post C04/C06: every planned consumer of a finished node gets its readiness check, once, in order");
      if (expect < 4 && !vf_emr_ret[expect]) expect_ok = false;
      expect++;
    }
  __CPROVER_assert(vf_emr_calls == expect, "post: edges outside the plan are not looked at, and nothing after the first failure");
  __CPROVER_assert(ok == expect_ok, "post: the result is the conjunction of the readiness checks");
  __CPROVER_assert(0, "canary: end of harness reachable");
}
