/* B3: contract of the main loop Builder::Build (real, with the real SetFailureCode) against the contracts of Plan (FindWork hands out each edge at most once; an edge
 * stays wanted until it succeeded), CommandRunner (WaitForCommand returns a started, unreaped command / a token / an interrupt), StartEdge and FinishCommand.
 * Clauses of C05 (-k N budget, waits for what runs, exit status), C06 (only waits when something runs), C20 (started/finished reports), C07 (interrupt status). */
#define NE 3
static Edge vf_e[NE]; static bool vf_started_[NE], vf_reaped[NE], vf_succeeded[NE]; static int vf_status_of[NE];
static bool vf_holds[NE], vf_active[NE];      /* ghost: the edge holds a job slot (acquired by FindWork under a jobserver) / its command is running in the runner */
static int vf_failures = 0, vf_first_failure = 0; static bool vf_any_failure_status[256];
static int vf_startedge_calls = 0, vf_finish_calls = 0, vf_prepare = 0; static bool vf_fatal_path = false, vf_interrupted = false;
static BuildConfig* vf_cfg = 0; static Builder* vf_b = 0;
static int vf_index(Edge* e) { int r = -1; for (int i = 0; i < NE; i++) if (e == &vf_e[i]) r = i; return r; }
void Plan::PrepareQueue() { vf_prepare++; }
bool Plan::more_to_do() const { bool r = false; for (int i = 0; i < NE; i++) if (!vf_e[i].vf_phony && !vf_succeeded[i]) r = true; return r; }   /* contract (C05/C06 of EdgeFinished): a command stays wanted until it succeeded */
bool Plan::work_ready() const { return nondet_bool(); }
Edge* Plan::FindWork() {                       /* contract (C06): NULL, or an edge that was not handed out before */
  /* ASSUMED plan liveness (the 'never stuck' clause of C06, not decided anywhere): while no command has failed and nothing is running, a plan with work left offers work */
  int pending = 0, unstarted = 0;
  for (int i = 0; i < NE; i++) { if (vf_started_[i] && !vf_e[i].vf_phony && !vf_reaped[i]) pending++; if (!vf_started_[i]) unstarted++; }
  bool must_offer = vf_failures == 0 && pending == 0 && unstarted > 0 && more_to_do();
  if (!must_offer && nondet_bool()) return 0;
  int i = nondet_int(); __CPROVER_assume(i >= 0 && i < NE);
  if (must_offer) __CPROVER_assume(!vf_started_[i]);
  if (vf_started_[i]) return 0;
  if (vf_b->jobserver_.p != 0) vf_holds[i] = true;          /* contract of FindWork under a jobserver: the returned edge holds an acquired slot */
  return &vf_e[i];
}
void Builder::Cleanup() {                      /* contract (RealCommandRunner::Abort -> ClearJobTokens): the slots of the commands STILL RUNNING are released */
  vf_cleanups++;
  for (int i = 0; i < NE; i++) if (vf_active[i]) { vf_holds[i] = false; vf_active[i] = false; }
}
bool Builder::StartEdge(Edge* edge, std::string* err) {
  int i = vf_index(edge);
  __CPROVER_assert(i >= 0 && !vf_started_[i], "pre StartEdge (C06): an edge is started at most once");
  __CPROVER_assert(vf_failures < vf_cfg->failures_allowed, "pre StartEdge (C05): once N commands have failed (-k N) nothing new is started");
  vf_startedge_calls++;
  if (i >= 0) vf_started_[i] = true;
  if (nondet_bool()) { *err = "mkdir failed"; vf_fatal_path = true; return false; }
  if (i >= 0 && !vf_e[i].vf_phony) vf_active[i] = true;
  return true;
}
bool Builder::FinishCommand(BuildResult::CommandCompleted& result, std::string* err) {
  int i = vf_index(result.edge);
  __CPROVER_assert(i >= 0 && vf_started_[i] && !vf_reaped[i], "pre FinishCommand: a started, not yet reaped command");
  vf_finish_calls++;
  if (i >= 0) { vf_reaped[i] = true; if (result.status == ExitSuccess) vf_succeeded[i] = true; }
  if (i >= 0) vf_holds[i] = false;                          /* contract of FinishCommand -> Plan::EdgeFinished (M3): the slot is given back on success and on failure */
  if (nondet_bool()) { *err = "log write error"; vf_fatal_path = true; return false; }
  return true;
}
bool Builder::AlreadyUpToDate() const { return !plan_.more_to_do(); }
size_t CommandRunner::CanRunMore() {          /* contract (discharged for the real RealCommandRunner::CanRunMore in C06): any capacity, but at least 1 when nothing is running */
  size_t c = vf_capacity[vf_cap_calls < 8 ? vf_cap_calls : 7]; vf_cap_calls++;
  int pending = 0; for (int i = 0; i < NE; i++) if (vf_started_[i] && !vf_e[i].vf_phony && !vf_reaped[i]) pending++;
  if (pending == 0 && c == 0) c = 1;
  return c;
}
static int vf_waits = 0;
BuildResult CommandRunner::WaitForCommandOrJobserverToken(bool watch_jobserver) {
  (void)watch_jobserver;
  int pending = 0; for (int i = 0; i < NE; i++) if (vf_started_[i] && !vf_e[i].vf_phony && !vf_reaped[i]) pending++;
  __CPROVER_assert(pending > 0, "pre WaitForCommand (C06): ninja only waits while a command is running");
  __CPROVER_assume(vf_waits < VF_WAITS); vf_waits++;                      /* harness bound on the number of waits (completions + token wake-ups) */
  BuildResult r;
  int k = nondet_int(); __CPROVER_assume(k >= 1 && k <= 3);
  r.vf_kind = k;
  if (k == 1) {
    int i = nondet_int(); __CPROVER_assume(i >= 0 && i < NE);
    __CPROVER_assume(vf_started_[i] && !vf_e[i].vf_phony && !vf_reaped[i]);
    int st = nondet_int(); __CPROVER_assume(st >= 0 && st <= 255);
    r.vf_cc.edge = &vf_e[i]; r.vf_cc.status = (ExitStatus)st; vf_status_of[i] = st;
    vf_active[i] = false;                                    /* a reaped command is no longer among the runner's active edges */
    if (st != 0 && st != 130) { if (vf_failures == 0) vf_first_failure = st; vf_failures++; vf_any_failure_status[st] = true; }
  }
  if (k == 3 || (k == 1 && r.vf_cc.status == ExitInterrupted)) vf_interrupted = true;      /* a child killed by SIGINT/SIGTERM/SIGHUP reports 130: the build counts as interrupted */
  return r;
}
/* phony edges finish inside the loop through plan_.EdgeFinished: the Plan stub in the prelude records it; mark success here */
extern "C" void harness() {
  Builder b; BuildConfig cfg; DiskInterface disk; Status status; CommandRunner runner; BuildLog blog;
  vf_cfg = &cfg; vf_b = &b;
  b.config_p_ = &cfg; b.disk_interface_ = &disk; b.status_ = &status; b.command_runner_.p = &runner; b.scan_.vf_bl = &blog;
  static vf_JobserverClient jsclient; if (nondet_bool()) b.jobserver_.p = &jsclient;
  cfg.dry_run = false;
  { int k = nondet_int(); __CPROVER_assume(k >= 1 && k <= 3); cfg.failures_allowed = k; }        /* -k N, N >= 1 (-k 0 is mapped to INT_MAX by ninja.cc) */
  for (int i = 0; i < NE; i++) { vf_e[i].vf_phony = false; vf_e[i].vf_generator = nondet_bool(); }
  vf_e[2].vf_phony = nondet_bool();
  for (int i = 0; i < 8; i++) { size_t c = (size_t)nondet_int(); __CPROVER_assume(c <= 3); runner.vf_capacity[i] = c; }
  b.plan_.vf_ef_ret = nondet_bool();
  std::string err;

  ExitStatus ret = b.Build(&err);

  /* a phony edge handed out by FindWork is finished on the spot */
  bool phony_done = vf_count(EV_PLAN_FINISHED) > 0;
  int pending = 0; for (int i = 0; i < NE; i++) if (vf_started_[i] && !vf_e[i].vf_phony && !vf_reaped[i]) pending++;
  bool fatal = vf_fatal_path || (phony_done && !b.plan_.vf_ef_ret);
  __CPROVER_assert(vf_prepare == 1, "post: the queue is prepared once");
  for (int i = 0; i < NE; i++) {
    bool released_as_phony = false;        /* a phony edge is finished on the spot through plan_.EdgeFinished (the Plan stub records it), which gives the slot back */
    for (int k = 0; k < VF_EV_CAP; k++) if (k < vf_ev_n && vf_ev_kind[k] == EV_PLAN_FINISHED && vf_ev_ptr[k] == (void*)&vf_e[i]) released_as_phony = true;
    __CPROVER_assert(!vf_holds[i] || released_as_phony, "post C06: every job slot / jobserver token acquired for an edge has been given back when Build returns - on every path (success, failure, cannot start, interrupt)");
  }
  __CPROVER_assert(status.vf_build_started == 1 && status.vf_build_finished == 1, "post C20: the build is reported started and finished exactly once on every path");
  if (vf_interrupted) {
    __CPROVER_assert(ret == ExitInterrupted && !err.empty(), "post C07: an interrupt ends the build with the interrupt status (130)");
    __CPROVER_assert(b.vf_cleanups == 1, "post C07: the running commands are cleaned up on interrupt");
  } else if (fatal) {
    __CPROVER_assert(ret != ExitSuccess, "post C05: a fatal error (cannot start a command, log write error, dyndep error) is never reported as success");
    __CPROVER_assert(b.vf_cleanups == 1, "post C07: running commands are cleaned up when the build is abandoned");
  } else {
    __CPROVER_assert(pending == 0, "post C05: ninja still waits for, and records, the commands already running before it gives up");
    __CPROVER_assert(vf_finish_calls == vf_startedge_calls - (vf_started_[2] && vf_e[2].vf_phony ? 1 : 0), "post C20: every started command is also reported finished");
    if (vf_failures > 0) {
      __CPROVER_assert(ret != ExitSuccess, "post C05: a build in which a command failed never exits with success");
      __CPROVER_assert((int)ret >= 0 && (int)ret <= 255 && vf_any_failure_status[(int)ret], "post C05: the exit status is taken from a failed command");
      __CPROVER_assert(!err.empty(), "post C05: with a diagnosis");
    } else if (ret == ExitSuccess) {
      bool all = true; for (int i = 0; i < NE; i++) if (!vf_e[i].vf_phony && !vf_succeeded[i]) all = false;
      __CPROVER_assert(all, "post C05/C06: success is reported only when every wanted command has run successfully");
    }
  }
  if (vf_failures >= 2) __CPROVER_assert(0, "canary: two failures");
  if (!fatal && !vf_interrupted && ret == ExitSuccess && vf_finish_calls >= 2) __CPROVER_assert(0, "canary: successful build");
  if (vf_interrupted) __CPROVER_assert(0, "canary: interrupted");
  __CPROVER_assert(0, "canary: end of harness reachable");
}
