/* C18: contract of the cleaner entry points (real text of clean.cc) over a symbolic three-statement graph and a ghost file-system log.
 *   e0: a <- src            (rule r0; depfile a.d?, rspfile a.rsp?)      e1: b, c <- a, hdr   (rule r1; depfile?, rspfile?)      e2: all <- b   (rule r0 or phony)
 * OP 0: CleanAll(generator)   OP 1: CleanTarget(target TGT)   OP 2: CleanRule(r RULE)   OP 3: CleanDead(entries)                                   */
extern "C" void harness() {
  State st; BuildConfig cfg; DiskInterface disk;
  cfg.dry_run = nondet_bool(); cfg.verbosity = nondet_bool() ? BuildConfig::QUIET : BuildConfig::NORMAL;
  static Node src, hdr, a, b, c, all, stale; static Edge e0, e1, e2; static Rule r0, r1;
  Node* nodes[6] = { &src, &hdr, &a, &b, &c, &all };
  const char* names[6] = { "src", "hdr", "a", "b", "c", "all" };
  int id[6];
  for (int i = 0; i < 6; i++) { nodes[i]->path_ = names[i]; id[i] = vf_register_path(nodes[i]->path_); st.vf_nodes[st.vf_nn++] = nodes[i]; }
  r0.name_ = "r0"; r1.name_ = "r1";
  r0.vf_generator = nondet_bool(); r1.vf_generator = nondet_bool();      /* constrained below: a rule-level generator binding makes every statement of the rule a generator statement */
  Edge* es[3] = { &e0, &e1, &e2 };
  static Rule rphony; rphony.name_ = "phony";
  e0.rule_ = &r0; e1.rule_ = &r1; e2.rule_ = PHONY2 ? &rphony : &r0;      /* a phony statement uses the built-in phony rule */
  e0.inputs_.push_back(&src); e0.outputs_.push_back(&a); a.in_edge_ = &e0; src.out_edges_.push_back(&e0);
  e1.inputs_.push_back(&a); e1.inputs_.push_back(&hdr); e1.outputs_.push_back(&b); e1.outputs_.push_back(&c); b.in_edge_ = &e1; c.in_edge_ = &e1; a.out_edges_.push_back(&e1); hdr.out_edges_.push_back(&e1);
  e2.inputs_.push_back(&b); e2.outputs_.push_back(&all); all.in_edge_ = &e2; b.out_edges_.push_back(&e2);
  int id_dep[3], id_rsp[3]; const char* deps[3] = { "a.d", "b.d", "all.d" }; const char* rsps[3] = { "a.rsp", "b.rsp", "all.rsp" };
  for (int i = 0; i < 3; i++) {
    st.edges_.push_back(es[i]);
    /* the shape is fixed per run (GENMASK: generator statements, DEPMASK: statements with a depfile, RSPMASK: with a response file, PHONY2: the alias is phony), so that the
       sequence of removals - and with it every container index - stays concrete; file-system answers, dry run and verbosity are symbolic */
    es[i]->vf_phony = (i == 2) && PHONY2; es[i]->vf_generator = ((GENMASK >> i) & 1) != 0;
    id_dep[i] = -2; id_rsp[i] = -2;
    if ((DEPMASK >> i) & 1) { es[i]->vf_depfile = deps[i]; id_dep[i] = vf_register_path(es[i]->vf_depfile); }
    if ((RSPMASK >> i) & 1) { es[i]->vf_rspfile = rsps[i]; id_rsp[i] = vf_register_path(es[i]->vf_rspfile); }
    if (nondet_bool()) es[i]->vf_deps = "gcc";                /* whether the statement uses deps = gcc is irrelevant to cleaning */
  }
  for (int i = 0; i < 3; i++) __CPROVER_assume(!const_cast<Rule*>(es[i]->rule_)->vf_generator || es[i]->vf_generator);
  for (int i = 0; i < VF_PATHS; i++) {
    long r = nondet_long(); __CPROVER_assume(r >= -1 && r <= 1); disk.vf_remove_ret[i] = r;
    long s = nondet_long(); __CPROVER_assume(s >= -1 && s <= 100); disk.vf_stat_ret[i] = s;
  }
  Cleaner cl(&st, &cfg, &disk);
  /* ---- the scope, stated from the property ---- */
  bool in_scope[3];
#if OP == 0
  bool generator = GENARG != 0;
  for (int i = 0; i < 3; i++) in_scope[i] = !es[i]->vf_phony && (generator || !es[i]->vf_generator);
  int rc = cl.CleanAll(generator);
#elif OP == 1
  /* everything the target is built from: the statements reachable through in-edges */
  Node* tgt = nodes[TGT];
  bool reach[3] = { false, false, false };
  if (tgt == &all) { reach[2] = true; reach[1] = true; reach[0] = true; }
  if (tgt == &b || tgt == &c) { reach[1] = true; reach[0] = true; }
  if (tgt == &a) reach[0] = true;
  for (int i = 0; i < 3; i++) in_scope[i] = reach[i] && !es[i]->vf_phony;
  int rc = cl.CleanTarget(tgt);
#elif OP == 2
  const Rule* rr = RULE == 0 ? &r0 : &r1;
  for (int i = 0; i < 3; i++) in_scope[i] = es[i]->rule_ == rr;
  int rc = cl.CleanRule(rr);
#endif
#if OP <= 2
  /* expected set of files: outputs, depfile and response file of the statements in scope */
  bool expect[VF_PATHS]; for (int i = 0; i < VF_PATHS; i++) expect[i] = false;
  if (in_scope[0]) { expect[id[2]] = true; }
  if (in_scope[1]) { expect[id[3]] = true; expect[id[4]] = true; }
  if (in_scope[2]) { expect[id[5]] = true; }
  for (int i = 0; i < 3; i++) if (in_scope[i]) { if (id_dep[i] >= 0) expect[id_dep[i]] = true; if (id_rsp[i] >= 0) expect[id_rsp[i]] = true; }
#else
  /* cleandead: log entries for a, stale (no node), hdr2 (node without edges), src */
  static Node lonely; lonely.path_ = "lonely"; int id_lonely = vf_register_path(lonely.path_); st.vf_nodes[st.vf_nn++] = &lonely;
  stale.path_ = "stale"; int id_stale = vf_register_path(stale.path_);
  BuildLog::Entries entries;
  bool in_a = (LOGMASK & 1) != 0, in_stale = (LOGMASK & 2) != 0, in_lonely = (LOGMASK & 4) != 0, in_src = (LOGMASK & 8) != 0;
  /* entries are written directly (distinct keys), so that the container size stays concrete */
  if (in_a) { entries.d_[entries.n_].first = StringPiece(a.path_); entries.n_++; }
  if (in_stale) { entries.d_[entries.n_].first = StringPiece(stale.path_); entries.n_++; }
  if (in_lonely) { entries.d_[entries.n_].first = StringPiece(lonely.path_); entries.n_++; }
  if (in_src) { entries.d_[entries.n_].first = StringPiece(src.path_); entries.n_++; }
  if (LOGMASK & 16) { entries.d_[entries.n_].first = StringPiece(all.path_); entries.n_++; }      /* a final output: produced by a statement, used by none */
  int rc = cl.CleanDead(entries);
  bool expect[VF_PATHS]; for (int i = 0; i < VF_PATHS; i++) expect[i] = false;
  if (in_stale) expect[id_stale] = true;          /* recorded in the log, no longer anywhere in the graph */
  if (in_lonely) expect[id_lonely] = true;        /* a node that no statement produces or uses (left over from the deps log) */
#endif
  /* ---- what happened on disk ---- */
  int removes[VF_PATHS], stats[VF_PATHS]; for (int i = 0; i < VF_PATHS; i++) { removes[i] = 0; stats[i] = 0; }
  int unknown = 0, removed_ok = 0, errors = 0;
  for (int k = 0; k < VF_EV_CAP; k++)
    if (k < vf_ev_n) {
      int p = vf_ev_pid[k];
      if (p < 0) unknown++;
      else if (vf_ev_kind[k] == EV_REMOVE) { removes[p]++; if (vf_ev_num[k] == 0) removed_ok++; if (vf_ev_num[k] == -1) errors++; }
      else stats[p]++;
    }
  __CPROVER_assert(unknown == 0, "post C18: no path outside the graph and the log is touched");
  int existing = 0;
  for (int i = 0; i < VF_PATHS; i++)
    if (i < vf_known_n) {
      if (!expect[i]) __CPROVER_assert(removes[i] == 0, "post C18: only outputs, depfiles and response files of the statements in scope are deleted - never a source file, a phony name, "
                                                        "a file of a statement out of scope or (plain clean without -g) a generator output");
      if (expect[i] && !cfg.dry_run) __CPROVER_assert(removes[i] == 1, "post C18: every file in scope is removed, exactly once");
      if (cfg.dry_run) __CPROVER_assert(removes[i] == 0, "post C18/C19: a dry run removes nothing");
      if (cfg.dry_run && expect[i]) { __CPROVER_assert(stats[i] == 1, "post C18: a dry run examines every file in scope"); if (disk.vf_stat_ret[i] > 0) existing++; }
      if (cfg.dry_run && !expect[i]) __CPROVER_assert(stats[i] == 0, "post C18: a dry run reports nothing out of scope");
    }
  __CPROVER_assert(cl.cleaned_files_count_ == (cfg.dry_run ? existing : removed_ok), "post C18: the reported count is the number of files removed (dry run: that exist and would be removed)");
  __CPROVER_assert((rc != 0) == (errors > 0), "post C18: the exit status is non-zero exactly if a removal failed");
  if (cfg.dry_run) __CPROVER_assert(0, "canary: dry run");
  __CPROVER_assert(0, "canary: end of harness reachable");
}
