/* S3: contract of DependencyScan::RecomputeEdgesInputsDirty (real) for a statement with NIN inputs of which OO trailing ones are order-only; the recursive visit of each input is
 * RecomputeNodeDirty's contract (stub).  From the doc comment and C03/C04: every input is visited first; the outputs stop being ready if ANY input's producer is not ready;
 * the statement is dirty iff a NON-order-only input is dirty; most_recent_input is the newest clean non-order-only input. */
static int vf_visits = 0; static Node* vf_visited[4]; static bool vf_visit_ret[4]; static int vf_reads_before_all_visited = 0; static int vf_total = 0;
bool DependencyScan::RecomputeNodeDirty(Node* node, std::vector<Node*>* stack, std::vector<Node*>* validation_nodes, std::string* err) {
  (void)stack; (void)validation_nodes;
  __CPROVER_assert(vf_visits < 4, "model capacity: visits");
  vf_visited[vf_visits] = node; bool r = vf_visit_ret[vf_visits]; vf_visits++;
  if (!r) *err = "error below";
  return r;
}
bool DependencyScan::VerifyDAG(Node* node, std::vector<Node*>* stack, std::string* err) { (void)node; (void)stack; (void)err; return true; }
long nondet_long();
extern "C" void harness() {
  DependencyScan scan;
  static Edge e, prod[NIN]; static Node in[NIN], self, old_mri;
  const char* names[3] = { "i0", "i1", "i2" };
  bool ind[NIN], unready[NIN]; long mt[NIN];
  for (int i = 0; i < NIN; i++) {
    in[i].path_ = names[i]; e.inputs_.push_back(&in[i]);
    ind[i] = nondet_bool(); in[i].dirty_ = ind[i];
    mt[i] = nondet_long(); __CPROVER_assume(mt[i] >= 0 && mt[i] < 1000000); in[i].mtime_ = mt[i];
    bool has_prod = nondet_bool(); prod[i].outputs_ready_ = nondet_bool(); in[i].in_edge_ = has_prod ? &prod[i] : (Edge*)0;
    unready[i] = has_prod && !prod[i].outputs_ready_;
  }
  int oo = nondet_int(); __CPROVER_assume(oo >= 0 && oo <= NIN); e.order_only_deps_ = oo;
  int im = nondet_int(); __CPROVER_assume(im >= 0 && im <= NIN - oo); e.implicit_deps_ = im;
  e.outputs_ready_ = true;
  for (int i = 0; i < 4; i++) vf_visit_ret[i] = nondet_bool();
  bool with_old = nondet_bool(); long old_mt = nondet_long(); __CPROVER_assume(old_mt >= 0 && old_mt < 1000000); old_mri.mtime_ = old_mt;
  Node* mri = with_old ? &old_mri : (Node*)0;
  bool dirty = nondet_bool(); bool dirty0 = dirty;
  std::vector<Node*> stack, validations; std::string err;
  bool ok = scan.RecomputeEdgesInputsDirty(&self, EdgeInputsRange(&e), mri, dirty, &stack, &validations, &err);
  bool all_ok = true; int expect_visits = 0;
  for (int i = 0; i < NIN; i++) if (all_ok) { __CPROVER_assert(expect_visits < vf_visits && vf_visited[expect_visits] == &in[i], "post C01/C17: every input of the range - explicit, implicit and order-only - is visited, once, in order"); if (!vf_visit_ret[expect_visits]) all_ok = false; expect_visits++; }
  __CPROVER_assert(vf_visits == expect_visits && ok == all_ok, "post: an error below stops the scan; nothing else is visited");
  if (ok) {
    bool any_unready = false, any_dirty = false; Node* want_mri = with_old ? &old_mri : (Node*)0; long best = with_old ? old_mt : -1;
    for (int i = 0; i < NIN; i++) {
      if (unready[i]) any_unready = true;
      bool order_only = i >= NIN - oo;
      if (!order_only) {
        if (ind[i]) any_dirty = true;
        else if (want_mri == 0 || mt[i] > best) { want_mri = &in[i]; best = mt[i]; }
      }
    }
    __CPROVER_assert(e.outputs_ready_ == !any_unready, "post C04: the statement's outputs stop counting as ready exactly if the producer of ANY input - order-only included - has not finished");
    __CPROVER_assert(dirty == (dirty0 || any_dirty), "post C03/C01: the statement becomes dirty exactly if a NON-order-only input is dirty or missing; an order-only input alone never makes it dirty");
    __CPROVER_assert(mri == want_mri || (mri != 0 && want_mri != 0 && mri->mtime_ == want_mri->mtime_), "post C01/C02: most_recent_input is the newest clean non-order-only input (order-only inputs never count)");
    for (int i = 0; i < NIN; i++) __CPROVER_assert(in[i].dirty_ == ind[i], "post (frame): the inputs' dirty flags are not written here");
  } else __CPROVER_assert(!err.empty(), "post C13: failure comes with a message");
  if (ok && oo > 0 && ind[NIN - 1]) __CPROVER_assert(0, "canary: dirty order-only input");
  if (ok) __CPROVER_assert(0, "canary: ok");
  __CPROVER_assert(0, "canary: end of harness reachable");
}
