/* O1: contract of RecomputeOutputsDirtyCache::all / depfile (real text) for a statement with NOUT outputs: the statement is dirty exactly when the documented rule says so.
 * The rule (manual, "Ninja file reference" / build log; property statements C01-C03):  an output of a non-phony statement is out of date iff
 *   (a) it does not exist, or
 *   (b) it is older than the most recent input - except that a restat statement with a log record is judged by the RECORDED mtime only, or
 *   (c) with a build log: the recorded mtime is older than the most recent input; or - unless the statement is a generator - its command line differs from the recorded
 *       one or nothing is recorded for it.
 * A phony statement's output is dirty only if it has no inputs and no validations and does not exist; otherwise it takes over the newest input's mtime. */
extern "C" void harness() {
  static Edge e; static Node out[NOUT], mri, in0, val0; OptionalExplanations expl; BuildLog bl;
  const char* names[2] = { "o0", "o1" };
  bool with_log = nondet_bool(), with_mri = nondet_bool();
  e.vf_phony = PHONY; e.vf_restat = nondet_bool(); e.vf_generator = nondet_bool(); e.vf_command = "cc";
  vf_cmd_hash = nondet_ulong();
  static BuildLog::LogEntry ent[NOUT];
  bool has_entry[NOUT]; long omt[NOUT]; bool ex[NOUT];
  for (int i = 0; i < NOUT; i++) {
    out[i].path_ = names[i]; e.outputs_.push_back(&out[i]); out[i].in_edge_ = &e;
    ex[i] = nondet_bool(); omt[i] = nondet_long(); __CPROVER_assume(omt[i] >= 0 && omt[i] < 1000000);
    if (!ex[i]) omt[i] = PHONY ? omt[i] : 0;                                  /* a missing file has mtime 0 (a phony alias may carry its inputs' mtime) */
    out[i].exists_ = ex[i] ? Node::ExistenceStatusExists : Node::ExistenceStatusMissing; out[i].mtime_ = omt[i];
    has_entry[i] = nondet_bool();
    ent[i].command_hash = nondet_ulong(); ent[i].mtime = nondet_long(); __CPROVER_assume(ent[i].mtime >= 0 && ent[i].mtime < 1000000);
    bl.vf_node[i] = &out[i]; bl.vf_entry[i] = has_entry[i] ? &ent[i] : (BuildLog::LogEntry*)0;
  }
  long mmt = nondet_long(); __CPROVER_assume(mmt >= 0 && mmt < 1000000); mri.mtime_ = mmt; mri.path_ = "in";
#if PHONY
  if (nondet_bool()) e.inputs_.push_back(&in0);
  if (nondet_bool()) e.validations_.push_back(&val0);
#else
  e.inputs_.push_back(&in0);
#endif
#ifdef CONVERGE
  /* C02, two-run lemma: the state a successful run of this statement leaves behind (contract of Builder::FinishCommand, C01: the record carries the command's start time - or, for
     restat/generator rules, at least that - and the current command hash; the outputs were written at or after the start; no input was edited since the command started) */
  {
    long start = nondet_long(); __CPROVER_assume(start >= 1 && start < 1000000);
    __CPROVER_assume(with_log && with_mri && mmt <= start);
    for (int i = 0; i < NOUT; i++) {
      __CPROVER_assume(ex[i] && has_entry[i] && ent[i].command_hash == vf_cmd_hash);
      __CPROVER_assume(ent[i].mtime >= start && (e.vf_restat || omt[i] >= start));
    }
  }
#endif
  RecomputeOutputsDirtyCache cache(with_log ? &bl : (BuildLog*)0, expl, &e);
  bool dirty = cache.all(with_mri ? &mri : (Node*)0);
  /* ---- the documented rule, per output ---- */
  bool want = false; int first_dirty = -1;
  for (int i = 0; i < NOUT; i++) {
    bool d;
#if PHONY
    d = e.inputs_.empty() && e.validations_.empty() && !ex[i];
#else
    bool rec = with_log && has_entry[i];
    bool judged_by_record = e.vf_restat && rec;
    d = !ex[i]
        || (!judged_by_record && with_mri && omt[i] < mmt)
        || (rec && with_mri && ent[i].mtime < mmt)
        || (with_log && !e.vf_generator && rec && ent[i].command_hash != vf_cmd_hash)
        || (with_log && !e.vf_generator && !rec);
#endif
    if (d && first_dirty < 0) first_dirty = i;
    want = want || d;
  }
#ifdef CONVERGE
  __CPROVER_assert(!dirty, "post C02: immediately after a successful run of the statement - record and outputs as FinishCommand leaves them, inputs untouched since the command started - it is not out of date");
#endif
  __CPROVER_assert(dirty == want, "post C01/C02/C03: a statement is out of date exactly when one of its outputs is missing, older than the most recent input (restat: judged by the recorded mtime), "
                                  "has a recorded mtime older than the most recent input, or - unless it is a generator - a changed or unrecorded command line");
#if PHONY
  for (int i = 0; i < NOUT; i++)
    if (first_dirty < 0 && with_mri) __CPROVER_assert(out[i].mtime_ == (ex[i] ? omt[i] : (omt[i] > mmt ? omt[i] : mmt)), "post C01: a phony alias that does not exist takes over the newest input's mtime, so that what depends on it is compared with the real files");
  if (!want) __CPROVER_assert(0, "canary: clean phony");
#else
  __CPROVER_assert(vf_hash_calls <= 1, "post: the command line is evaluated and hashed at most once per statement");
  if (!dirty) {
    /* the follow-up used after discovered dependencies were loaded: a newer discovered input */
    long m2 = nondet_long(); __CPROVER_assume(m2 >= 0 && m2 < 1000000);
    static Node mri2; mri2.mtime_ = m2; mri2.path_ = "hdr";
    int lookups = bl.vf_lookups;
    bool d2 = cache.depfile(&mri2);
    bool want2 = false;
    for (int i = 0; i < NOUT; i++) {
      bool rec = with_log && has_entry[i];
      bool judged_by_record = e.vf_restat && rec;
      want2 = want2 || (!judged_by_record && omt[i] < m2) || (rec && ent[i].mtime < m2);
    }
    __CPROVER_assert(d2 == want2, "post C02/C10/C01: against a newer discovered dependency the statement is out of date exactly when an output (or, with a log, its recorded mtime) is older than it");
    __CPROVER_assert(bl.vf_lookups == lookups || !with_log, "post: the follow-up check reuses the log lookups of the first pass");
  }
  if (!dirty) __CPROVER_assert(0, "canary: clean statement");
#if NOUT > 1 && !defined(CONVERGE)
  if (dirty && with_log && first_dirty == 1) __CPROVER_assert(0, "canary: second output decides");
#endif
#endif
  __CPROVER_assert(0, "canary: end of harness reachable");
}
