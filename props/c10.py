"""C10 (discovered dependencies are inputs, scan side): DependencyScan::RecomputeNodeDirty (props/scanunit.py)."""
from engine.selftest import subst
from props import scanjobs, builderjobs, outdirtyjobs

ID = "C10"
USES_CPP = True

MANIFEST = {
    "level_claimed": {
        "category": "other",
        "text": "Scan-side clauses only, modular: the contract of DependencyScan::RecomputeNodeDirty (real text of graph.cc, callees by contract) states that on the first visit of a statement the "
                "dependencies recorded for it (depfile / deps log) are loaded into its inputs and examined like declared inputs (visited, dirtiness and mtime taken into account, the outputs "
                "compared with a discovered dependency that is newer than every declared input), that missing or outdated dependency information makes the statement dirty instead of failing, "
                "and that this happens 'whatever else is out of date at the same time'. The last clause FAILS on the unchanged tree and is a KNOWN FINDING (deps are not loaded when the statement is already "
                "dirty; native demonstration in findings/C10-deps-not-loaded-when-dirty/). Also (Plan::AddSubTarget, C05 unit) a vanished discovered dependency is not a 'missing source' error. "
                "Build side (Builder::ExtractDeps / FinishCommand, real text, callees by contract): every dependency the depfile or the compiler output names is handed on, once, in order, and recorded for every output. "
                "NOT decided: ImplicitDepLoader itself (depfile/deps-log reading, node creation), whole-build equivalence with a declared implicit input.",
        "design_ref": "DESIGN.md 5 C10",
    },
    "level_note": "trusted: " + "; ".join(scanjobs.TRUST),
    "technique": "contract-based modular verification with CBMC: real DependencyScan::RecomputeNodeDirty against callee contract stubs over a ghost call trace (assume/assert harness, recursion by contract)",
}


def jobs(tier, mutant=None):
    return scanjobs.select(tier, ["S1"], r'\bC10\b', mutant) + builderjobs.select(tier, ["B4", "B2"], r'\bC10\b', mutant) + outdirtyjobs.select(tier, ["O1"], r'\bC10\b', mutant)


def _m(target, old, new):
    f = subst(old, new)
    f.target = target
    return f


MUTANTS = [
    ("deps_never_loaded", _m("RecomputeNodeDirty", "std::optional<EdgeInputsRange> new_deps = dep_loader_.LoadDeps(edge, err);", "std::optional<EdgeInputsRange> new_deps = EdgeInputsRange::Empty(edge);") if False else
     _m("RecomputeNodeDirty", "    if (!dirty) {\n      // Load discovered deps.", "    if (false) {\n      // Load discovered deps.")),
    ("loaded_deps_not_examined", _m("RecomputeNodeDirty", "        if (!RecomputeEdgesInputsDirty(node, new_deps.value(), most_recent_input, dirty,\n                                       stack, validation_nodes, err))\n          return false;\n", "")),
    ("missing_deps_info_ignored", _m("RecomputeNodeDirty", "        dirty = edge->deps_missing_ = true;\n      } else {", "        edge->deps_missing_ = true;\n      } else {")),
    ("last_dependency_dropped", _m("ExtractDeps", "i != deps.ins_.end(); ++i) {", "i + 1 != deps.ins_.end(); ++i) {")),
    ("newer_discovered_dep_not_compared", _m("RecomputeNodeDirty", "dirty = recomputeOutputsDirty.depfile(most_recent_input);", "dirty = false;")),
]


def replay(job, ob, vals, scratch):
    keep = [(lhs, data) for lhs, data, _b, fn, _l in vals if fn == "harness" and lhs and not lhs.startswith("return_value")]
    return "state: " + " ".join("%s=%s" % kv for kv in keep[-30:]), None, {
        "counterexample_state": ["%s=%s" % kv for kv in keep[-80:]],
        "note": "modular contract obligation: the counterexample is a statement state plus callee verdicts; for the known finding the native history is findings/C10-deps-not-loaded-when-dirty/demo.sh"}


def describe(tier):
    return {
        "functions": ["graph.cc:DependencyScan::RecomputeNodeDirty", "graph.cc:DependencyScan::VerifyDAG", "build.cc:Builder::ExtractDeps", "build.cc:Builder::FinishCommand"],
        "checker_cmd": "goto-cc -std=c++11 unit.cc (slices + stubs + harness); cbmc a.gb --unwind 18 --unwinding-assertions + checks",
        "trusted_base": scanjobs.TRUST + builderjobs.TRUST,
        "bounds": {t: "one statement, all callee verdicts symbolic (loop-light: the only loops run over 2 outputs / 1 validation)" for t in ("quick", "thorough")},
        "assumptions": scanjobs.ASSUME,
        "silent": ["ImplicitDepLoader (reading depfiles / the deps log, creating nodes and phony in-edges)", "Builder::ExtractDeps", "equivalence with a declared implicit input over whole builds"],
        "explanation": "Postcondition of RecomputeNodeDirty over a ghost call trace; the C10 sentence 'whatever else is out of date at the same time' is a separate obligation (known finding).",
    }
