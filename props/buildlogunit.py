"""Build-log writer unit: BuildLog::RecordCommand / Restat / Recompact (sliced from /repo/src/build_log.cc) against contract stubs of WriteEntry, stdio, DiskInterface::Stat,
BuildLogUser::IsPathDead and ReplaceContent.  Used by C08 (writer-side clauses)."""
import os
import re

from engine import slicer
from engine.core import Job, VERIF
from engine.routeb import gotocc_cpp, cbmc_argv, STD, unwindset_from_loops, mirrored_string_piece

SIGS = {"RecordCommand": r'bool\s+BuildLog::RecordCommand\s*\(', "Restat": r'bool\s+BuildLog::Restat\s*\(', "Recompact": r'bool\s+BuildLog::Recompact\s*\(',
        "LookupByOutput": r'BuildLog::LogEntry\*\s+BuildLog::LookupByOutput\s*\('}


def check_shadow():
    h = slicer.read_src("src/build_log.h")
    for rx in [r'Entries\s+entries_;', r'FILE\*\s+log_file_\s*=\s*nullptr;', r'std::string\s+log_file_path_;', r'bool\s+needs_recompaction_\s*=\s*false;',
               r'typedef\s+ExternalStringHashMap<std::unique_ptr<LogEntry>>::Type\s+Entries;', r'std::string\s+output;', r'int\s+start_time\s*=\s*0;', r'int\s+end_time\s*=\s*0;',
               r'virtual\s+bool\s+IsPathDead\(StringPiece\s+s\)\s+const\s*=\s*0;', r'bool\s+WriteEntry\(FILE\*\s+f,\s*const\s+LogEntry&\s+entry\);', r'bool\s+OpenForWriteIfNeeded\(\);']:
        if not re.search(rx, h):
            raise slicer.SliceError("shadow for the build-log unit out of date: /%s/ not found" % rx)


PRELUDE = r'''
#define VF_EDGE_BINDINGS
#include "graph.h"
#include <algorithm>
#include <utility>
#include "string_piece.h"
using namespace std;
long nondet_long(); unsigned long nondet_ulong();
std::string Edge::GetBinding(const char* key) const { (void)key; __CPROVER_assert(0, "model capacity: shadow Edge::GetBinding"); __CPROVER_assume(0); return std::string(); }
bool Edge::GetBindingBool(const char* key) const { (void)key; __CPROVER_assert(0, "model capacity: shadow Edge::GetBindingBool"); __CPROVER_assume(0); return false; }
struct vf_FILE { int id; }; typedef vf_FILE FILE;
static vf_FILE vf_tmp_file, vf_log_file_obj;
static int vf_fopen_calls = 0, vf_fclose_calls = 0, vf_header_writes = 0, vf_flushes = 0; static bool vf_fopen_fails = false;
static FILE* vf_fopen(const char* path, const char* mode) { (void)path; (void)mode; vf_fopen_calls++; return vf_fopen_fails ? (FILE*)0 : &vf_tmp_file; }
static int vf_fclose(FILE* f) { (void)f; vf_fclose_calls++; return 0; }
static int vf_fflush(FILE* f) { (void)f; vf_flushes++; return 0; }
static int vf_fprintf_hdr(FILE* f, const char* fmt, int v) { (void)f; (void)fmt; (void)v; vf_header_writes++; return 1; }
#define fopen vf_fopen
#define fclose vf_fclose
#define fflush vf_fflush
#define fprintf vf_fprintf_hdr
static int errno = 0;
#define strerror(x) "io error"
#define METRIC_RECORD(x)
static const char kFileSignature[] = "# ninja log v%%d\n"; static const int kCurrentVersion = 7;
template <class T> struct vf_UP { T* p; vf_UP() : p(0) {} vf_UP(T* q) : p(q) {} T* get() const { return p; } };
struct DiskInterface {
  long vf_stat[4]; int vf_stats; int vf_stat_of[4];
  DiskInterface() : vf_stats(0) {}
  TimeStamp Stat(const std::string& path, std::string* err) const;          /* defined by the harness (records which entry was examined) */
};
struct BuildLogUser { bool vf_dead[4]; bool IsPathDead(StringPiece s) const; };
static int vf_replace_calls = 0; static bool vf_replace_ok = true;
static unsigned long vf_hash_parsed = 0;
static unsigned long long vf_strtoull(const char* s, char** e, int base) { (void)s; (void)e; (void)base; return vf_hash_parsed; }      /* contract: the value of the hex text */
#define strtoull vf_strtoull
static bool ReplaceContent(const std::string& path, const std::string& temp_path, std::string* err) { (void)path; (void)temp_path; vf_replace_calls++; if (!vf_replace_ok) *err = "rename failed"; return vf_replace_ok; }
struct BuildLog {
  struct LogEntry {
    std::string output; uint64_t command_hash; int start_time; int end_time; TimeStamp mtime;
    static uint64_t HashCommand(const std::string& command) { (void)command; return 77; }
    explicit LogEntry(const std::string& o) : output(o), command_hash(0), start_time(0), end_time(0), mtime(0) {}
    LogEntry() : command_hash(0), start_time(0), end_time(0), mtime(0) {}
  };
  typedef std::map<StringPiece, vf_UP<LogEntry> > Entries;         /* real: unordered_map<StringPiece, unique_ptr<LogEntry>> */
  BuildLog() : log_file_(0), needs_recompaction_(false), vf_open_ok(true), vf_write_ok(true), vf_written_n(0), vf_closes(0) {}
  bool RecordCommand(Edge* edge, int start_time, int end_time, TimeStamp mtime);
  bool Restat(const StringPiece path, const DiskInterface& disk_interface, const int output_count, char** outputs, std::string* const err);
  bool Recompact(const std::string& path, const BuildLogUser& user, std::string* err);
  LogEntry* LookupByOutput(const std::string& path) const;
  void vf_LoadUpdate(std::string output, int start_time, int end_time, TimeStamp mtime, char* start, char* end, int& unique_entry_count, int& total_entry_count);
  /* contract stubs: WriteEntry appends one line for `entry` to f (records it); OpenForWriteIfNeeded opens the log for append; Close closes it */
  bool WriteEntry(FILE* f, const LogEntry& entry) {
    __CPROVER_assert(f != 0, "pre WriteEntry: an open file");
    __CPROVER_assert(vf_written_n < 8, "model capacity: written records"); __CPROVER_assume(vf_written_n < 8);
    vf_written[vf_written_n] = (LogEntry*)&entry; vf_written_file[vf_written_n] = f; vf_written_mtime[vf_written_n] = entry.mtime; vf_written_hash[vf_written_n] = entry.command_hash; vf_written_n++;
    return vf_write_ok;
  }
  bool OpenForWriteIfNeeded() { if (log_file_ || log_file_path_.empty()) return true; if (!vf_open_ok) return false; log_file_ = &vf_log_file_obj; return true; }
  void Close() { vf_closes++; log_file_ = 0; }
  Entries entries_; FILE* log_file_; std::string log_file_path_; bool needs_recompaction_;
  bool vf_open_ok, vf_write_ok; LogEntry* vf_written[8]; FILE* vf_written_file[8]; long vf_written_mtime[8]; uint64_t vf_written_hash[8]; int vf_written_n; int vf_closes;
};
/* ---- verbatim slices of /repo/src/build_log.cc (lowerings in props/buildlogunit.py) ---- */
%(funcs)s
/* ---- end of slices ---- */
'''


def unit_text(mutant=None):
    check_shadow()
    parts = []
    for name in ("RecordCommand", "LookupByOutput", "Recompact", "Restat"):
        f = slicer.extract_function("src/build_log.cc", SIGS[name])
        if mutant and getattr(mutant, "target", None) == name:
            f = mutant(f)
        parts.append(f)
    body = "\n\n".join(parts)
    # the entry-update statements of BuildLog::Load (from `LogEntry* entry;` to `*end = c;`), sliced by line range and wrapped into a member function so that they can be called
    # once per parsed line: `continue` (skip the line) becomes leaving the do-while
    blk = slicer.extract_lines("src/build_log.cc", r'^\s*LogEntry\* entry;\s*$', r'^\s*\*end = c;\s*$')
    if mutant and getattr(mutant, "target", None) == "LoadUpdate":
        blk = mutant(blk)
    body += ("\n\nvoid BuildLog::vf_LoadUpdate(std::string output, int start_time, int end_time, TimeStamp mtime, char* start, char* end, int& unique_entry_count, int& total_entry_count) {\n"
             "  do {\n" + blk + "  } while (0);\n}\n")
    body = body.replace("entries_.find(output);", "entries_.find(StringPiece(output));").replace("new LogEntry(std::move(output))", "new LogEntry(output)")
    # L7m: range-for over the entries map -> iterator loop
    body, n7 = re.subn(r'for\s*\(\s*(?:const\s+)?auto&\s*(\w+)\s*:\s*entries_\s*\)\s*\{',
                       lambda m: "for (Entries::iterator vf_it = entries_.begin(); vf_it != entries_.end(); ++vf_it) { Entries::value_type& %s = *vf_it;" % m.group(1), body)
    body, n7b = re.subn(r'for\s*\(\s*StringPiece\s+(\w+)\s*:\s*(\w+)\s*\)\s*\n?\s*entries_\.erase\(\1\);',
                        r'for (std::vector<StringPiece>::iterator vf_d = \2.begin(); vf_d != \2.end(); ++vf_d) entries_.erase(*vf_d);', body)
    # L24: unique_ptr operator-> / operator* spelled through get()
    body, n24 = re.subn(r'\b(pair|i->second|\w+)\.second->', lambda m: "%s.second.get()->" % m.group(1), body)
    body, n24b = re.subn(r'\*pair\.second\b(?!\.)', '*pair.second.get()', body)
    body = re.sub(r'std::unique_ptr<LogEntry>\((\w+)\)', r'vf_UP<LogEntry>(\1)', body)
    body, nem = re.subn(r'entries_\.emplace\(([^,]+),\s*([^;]+)\);', r'entries_.insert(Entries::value_type(StringPiece(\1), \2));', body)
    body = body.replace("Entries::iterator i = entries_.find(path);", "Entries::iterator i = entries_.find(StringPiece(path));").replace(
        "Entries::const_iterator i = entries_.find(path);", "Entries::const_iterator i = entries_.find(StringPiece(path));")
    body = re.sub(r'\bEntries::', 'BuildLog::Entries::', body)
    body = body.replace("BuildLog::Entries::value_type(", "std::pair<StringPiece, vf_UP<BuildLog::LogEntry> >(").replace("BuildLog::Entries::value_type&", "std::pair<StringPiece, vf_UP<BuildLog::LogEntry> >&")
    body = body.replace("BuildLog::Entries::iterator", "std::map<StringPiece, vf_UP<BuildLog::LogEntry> >::iterator").replace("BuildLog::Entries::const_iterator", "std::map<StringPiece, vf_UP<BuildLog::LogEntry> >::const_iterator")
    if re.search(r'for\s*\([^;()]*:[^;()]*\)', body):
        raise slicer.SliceError("an uncovered range-for remains")
    return PRELUDE % {"funcs": body}, {"L7": n7 + n7b, "L24": n24 + n24b, "emplace": nem}


def build_fn(harness_file, defines=(), mutant=None, unwind=12, str_cap=24):
    def build(d):
        unit, counts = unit_text(mutant)
        with open(os.path.join(VERIF, "props", "harness", harness_file)) as f:
            h = f.read()
        with open(os.path.join(d, "unit.cc"), "w") as f:
            f.write(unit + h)
        with open(os.path.join(d, "string_piece.h"), "w") as f:
            f.write(mirrored_string_piece())
        with open(os.path.join(d, "util.h"), "w") as f:
            f.write(slicer.read_src("src/util.h"))
        steps = [gotocc_cpp(["unit.cc"], defines=list(defines) + ["VF_STR_CAP=%d" % str_cap, "VF_VEC_CAP=4", "VF_MAP_CAP=5", "VF_SET_CAP=3"],
                            includes=[d, os.path.join(VERIF, "props", "harness"), os.path.join(VERIF, "stubs", "ninja_plan"), os.path.join(VERIF, "stubs", "cstring"), STD, os.path.join(VERIF, "stubs")])]
        build.lowerings = counts

        def post(dd, av):
            us, _ = unwindset_from_loops(dd, "a.gb", [("vf_s_", str_cap + 4), ("vf_memcmp", str_cap + 4), ("append", str_cap + 4), ("harness.", 12)])
            return av + (["--unwindset", us] if us else [])
        return steps, cbmc_argv(unwind=unwind, object_bits=11), post
    return build


def job(name, harness_file, defines=(), mutant=None, bound=None, canaries=1, weight=1.0, timeout=1200):
    j = Job(name, build_fn(harness_file, defines, mutant), "bounded", timeout=timeout, canaries=canaries, bound=bound,
            functions=["build_log.cc:BuildLog::" + r for r in ("RecordCommand", "Restat", "Recompact", "LookupByOutput")], weight=weight)
    j.strict_bodies = True
    return j


TRUST = ["shadow struct BuildLog / LogEntry (members conformance-checked against build_log.h; Entries = array-map model of the unordered_map, unique_ptr = plain holder)",
         "contract stubs: WriteEntry (records the entry written), OpenForWriteIfNeeded/Close, fopen/fclose/fflush/fprintf(header), DiskInterface::Stat, BuildLogUser::IsPathDead, ReplaceContent",
         "lowerings: range-for over the entries map / the dead list (L7), unique_ptr operator->/* through get() (L24), emplace -> insert, Entries:: spelled out (L20)"]
