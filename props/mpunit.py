"""Manifest-parser unit (small statements): ManifestParser::ParseFileInclude / ParseRule / ParseLet / ParseDefault (sliced from /repo/src/manifest_parser.cc) and Rule::IsReservedBinding
(eval_env.cc), against contract stubs of Lexer, Parser::ExpectToken/Load, BindingEnv, State and EvalString.  Used by C12 (scoping and rejection clauses on the parser side)."""
import os
import re

from engine import slicer
from engine.core import Job, VERIF
from engine.routeb import gotocc_cpp, cbmc_argv, STD, unwindset_from_loops, mirrored_string_piece

SIGS = {"ParseFileInclude": ("src/manifest_parser.cc", r'bool\s+ManifestParser::ParseFileInclude\s*\('), "ParseRule": ("src/manifest_parser.cc", r'bool\s+ManifestParser::ParseRule\s*\('),
        "ParseLet": ("src/manifest_parser.cc", r'bool\s+ManifestParser::ParseLet\s*\('), "ParseDefault": ("src/manifest_parser.cc", r'bool\s+ManifestParser::ParseDefault\s*\('),
        "IsReservedBinding": ("src/eval_env.cc", r'bool\s+Rule::IsReservedBinding\s*\(')}


def check_shadow():
    h = slicer.read_src("src/manifest_parser.h")
    p = slicer.read_src("src/parser.h")
    e = slicer.read_src("src/eval_env.h")
    s = slicer.read_src("src/state.h")
    for text, rx in [(h, r'BindingEnv\*\s+env_;'), (h, r'std::unique_ptr<ManifestParser>\s+subparser_;'), (h, r'ManifestParserOptions\s+options_;'),
                     (p, r'State\*\s+state_;'), (p, r'FileReader\*\s+file_reader_;'), (p, r'Lexer\s+lexer_;'), (p, r'bool\s+Load\(const\s+std::string&\s+filename,\s*std::string\*\s+err,\s*Lexer\*\s+parent\s*=\s*NULL\);'),
                     (e, r'explicit\s+BindingEnv\(BindingEnv\*\s+parent\)\s*:\s*parent_\(parent\)'), (e, r'const\s+Rule\*\s+LookupRuleCurrentScope\(StringPiece\s+rule_name\);'),
                     (e, r'void\s+AddRule\(std::unique_ptr<const\s+Rule>\s+rule\);'), (e, r'typedef\s+std::map<std::string,\s*EvalString,\s*StringPieceLess>\s+Bindings;'),
                     (e, r'static\s+bool\s+IsReservedBinding\(StringPiece\s+var\);'), (s, r'bool\s+AddDefault\(StringPiece\s+path,\s*std::string\*\s+error\);')]:
        if not re.search(rx, text):
            raise slicer.SliceError("shadow for the manifest-parser unit out of date: /%s/ not found" % rx)


PRELUDE = r'''
#include <stddef.h>
#include <stdint.h>
#include <string>
#include <vector>
#include <map>
#include <utility>
#include "string_piece.h"
using namespace std;
bool nondet_bool(); int nondet_int();
struct State; struct FileReader { int x; }; struct BindingEnv; struct Env { int x; };
/* ---- contract stubs ---- */
struct EvalString {                           /* ghost: vf_text is what Evaluate() yields in any scope (the evaluation itself is eval_env.cc's contract) */
  std::string vf_text; bool vf_empty;
  EvalString() : vf_empty(true) {}
  std::string Evaluate(BindingEnv* env) const { (void)env; return vf_text; }
  bool empty() const { return vf_empty; }
  void Clear() { vf_empty = true; vf_text = std::string(); }
};
static int vf_errors = 0; static std::string vf_last_error;
static int vf_idents = 0; static std::string vf_ident_script[4]; static bool vf_ident_ok[4];
static int vf_values = 0; static bool vf_value_ok[4]; static bool vf_value_empty[4];
static int vf_peeks = 0; static bool vf_peek_script[4];
static int vf_paths = 0; static bool vf_path_ok[4]; static bool vf_path_empty[4]; static std::string vf_path_text[4];
struct Lexer {
  enum Token { ERROR, BUILD, COLON, DEFAULT, EQUALS, IDENT, INCLUDE, INDENT, NEWLINE, PIPE, PIPE2, PIPEAT, POOL, RULE, SUBNINJA, TEOF };
  /* contracts (C12 lexer check): Error stores a non-empty diagnostic and returns false; Read* return false only with *err set */
  bool Error(const std::string& message, std::string* err) { vf_errors++; vf_last_error = message; *err = message; err->push_back('!'); return false; }
  bool ReadIdent(std::string* out) { int k = vf_idents < 4 ? vf_idents : 3; vf_idents++; if (!vf_ident_ok[k]) return false; *out = vf_ident_script[k]; return true; }
  bool ReadVarValue(EvalString* value, std::string* err) { int k = vf_values < 4 ? vf_values : 3; vf_values++; if (!vf_value_ok[k]) { *err = "lexing error!"; return false; } value->vf_empty = vf_value_empty[k]; if (vf_value_empty[k]) value->vf_text = ""; else value->vf_text = "v"; return true; }
  bool ReadPath(EvalString* path, std::string* err) { int k = vf_paths < 4 ? vf_paths : 3; vf_paths++; if (!vf_path_ok[k]) { *err = "lexing error!"; return false; } path->vf_empty = vf_path_empty[k]; path->vf_text = vf_path_text[k]; return true; }
  bool PeekToken(Token t) { (void)t; int k = vf_peeks < 4 ? vf_peeks : 3; vf_peeks++; return vf_peeks <= 3 && vf_peek_script[k]; }
};
struct Rule {
  explicit Rule(const std::string& name) : name_(name) {}
  std::string name_;
  /* real: std::map<std::string, EvalString, StringPieceLess>.  operator[] with a string literal goes through a NAMED key (a temporary key bound to the const reference crashes symex, F-g) */
  struct Bindings {
    std::map<std::string, EvalString> m;
    EvalString& operator[](const std::string& k) { return m[k]; }
    EvalString& operator[](const char* k) { std::string kk(k); return m[kk]; }
  };
  Bindings bindings_;
  void AddBinding(const std::string& key, const EvalString& val) { bindings_[key] = val; }       /* eval_env.cc, verbatim */
  /* contract stub of Rule::IsReservedBinding (eval_env.cc): exactly the rule variables the manual lists */
  static bool IsReservedBinding(const std::string& var) {
    return var == "command" || var == "depfile" || var == "dyndep" || var == "description" || var == "deps" || var == "generator" || var == "pool" || var == "restat" ||
           var == "rspfile" || var == "rspfile_content" || var == "msvc_deps_prefix";
  }
};
template <class T> struct vf_UP { T* p; vf_UP() : p(0) {} vf_UP(T* q) : p(q) {} T* get() const { return p; } void reset(T* q) { p = q; } bool vf_null() const { return p == 0; } };
static int vf_addrule_calls = 0; static Rule* vf_added_rule = 0; static BindingEnv* vf_added_to = 0;
struct BindingEnv {
  BindingEnv() : parent_(0), vf_has_rule(false) {}
  explicit BindingEnv(BindingEnv* parent) : parent_(parent), vf_has_rule(false) {}
  BindingEnv* parent_; bool vf_has_rule; Rule* vf_existing;
  const Rule* LookupRuleCurrentScope(const std::string& rule_name) { (void)rule_name; return vf_has_rule ? vf_existing : (Rule*)0; }      /* contract: the rule of that name declared in THIS scope, or NULL */
  void AddRule(vf_UP<Rule> rule) { vf_addrule_calls++; vf_added_rule = rule.get(); vf_added_to = this; }
};
static int vf_defaults = 0; static std::string vf_default_paths[4]; static bool vf_default_ok[4];
struct State {
  BindingEnv bindings_;
  bool AddDefault(const std::string& path, std::string* error) { int k = vf_defaults < 4 ? vf_defaults : 3; vf_default_paths[k] = path; vf_defaults++; if (!vf_default_ok[k]) { *error = "unknown target"; return false; } return true; }
};
static int vf_canon_calls = 0;
void CanonicalizePath(std::string* path, uint64_t* slash_bits) { (void)path; vf_canon_calls++; *slash_bits = 0; }      /* under contract in C14 */
struct ManifestParserOptions { int phony_cycle_action_; ManifestParserOptions() : phony_cycle_action_(0) {} };
static int vf_loads = 0; static BindingEnv* vf_load_env[3]; static std::string vf_load_path[3]; static bool vf_load_ok[3]; static void* vf_load_parent[3];
static int vf_expects = 0; static bool vf_expect_ok[4];
struct ManifestParser {
  ManifestParser(State* state, FileReader* file_reader, ManifestParserOptions options) : state_(state), file_reader_(file_reader), options_(options), quiet_(false) { env_ = &state->bindings_; }
  /* Parser (base class) members, flattened */
  State* state_; FileReader* file_reader_; Lexer lexer_;
  bool ExpectToken(Lexer::Token expected, std::string* err) { (void)expected; int k = vf_expects < 4 ? vf_expects : 3; vf_expects++; if (!vf_expect_ok[k]) { *err = "expected token!"; return false; } return true; }
  /* contract stub of Parser::Load: parses the named file with THIS parser - i.e. in this->env_ - and records it */
  bool Load(const std::string& filename, std::string* err, Lexer* parent) {
    int k = vf_loads < 3 ? vf_loads : 2; vf_load_env[k] = env_; vf_load_path[k] = filename; vf_load_parent[k] = (void*)parent; vf_loads++;
    if (!vf_load_ok[k]) { *err = "loading failed!"; return false; }
    return true;
  }
  bool ParseRule(std::string* err);
  bool ParseLet(std::string* key, EvalString* val, std::string* err);
  bool ParseDefault(std::string* err);
  bool ParseFileInclude(bool new_scope, std::string* err);
  BindingEnv* env_; ManifestParserOptions options_; bool quiet_;
  vf_UP<ManifestParser> subparser_;
};
/* ---- verbatim slices of /repo/src/manifest_parser.cc and /repo/src/eval_env.cc (lowerings in props/mpunit.py) ---- */
%(funcs)s
/* ---- end of slices ---- */
'''


def unit_text(mutant=None):
    check_shadow()
    parts = []
    for name in ("ParseLet", "ParseRule", "ParseDefault", "ParseFileInclude"):
        rel, sig = SIGS[name]
        f = slicer.extract_function(rel, sig)
        if mutant and getattr(mutant, "target", None) == name:
            f = mutant(f)
        parts.append(f)
    body = "\n\n".join(parts)
    # L24: unique_ptr spelled through the holder
    body, a1 = re.subn(r'auto\s+rule\s*=\s*std::unique_ptr<Rule>\(new Rule\(name\)\);', 'vf_UP<Rule> rule(new Rule(name));', body)
    body, a2 = re.subn(r'\brule->', 'rule.get()->', body)
    body, a3 = re.subn(r'\bsubparser_->', 'subparser_.get()->', body)
    body, a4 = re.subn(r'\bsubparser_\s*==\s*nullptr', 'subparser_.vf_null()', body)
    body, a5 = re.subn(r'std::move\(rule\)', 'rule', body)
    if re.search(r'\bauto\b|std::unique_ptr|->\s*operator', body):
        raise slicer.SliceError("an uncovered auto / unique_ptr construct remains")
    return PRELUDE % {"funcs": body}, {"L24": a1 + a2 + a3 + a4, "L6": a5}


def build_fn(harness_file, defines=(), mutant=None, unwind=12, str_cap=72):
    def build(d):
        unit, counts = unit_text(mutant)
        with open(os.path.join(VERIF, "props", "harness", harness_file)) as f:
            h = f.read()
        with open(os.path.join(d, "unit.cc"), "w") as f:
            f.write(unit + h)
        with open(os.path.join(d, "string_piece.h"), "w") as f:
            f.write(mirrored_string_piece())
        with open(os.path.join(d, "util.h"), "w") as f:
            f.write(slicer.read_src("src/util.h"))
        steps = [gotocc_cpp(["unit.cc"], defines=list(defines) + ["VF_STR_CAP=%d" % str_cap, "VF_VEC_CAP=3", "VF_MAP_CAP=12", "VF_SET_CAP=3"],
                            includes=[d, os.path.join(VERIF, "props", "harness"), os.path.join(VERIF, "stubs", "cstring"), STD, os.path.join(VERIF, "stubs")])]
        build.lowerings = counts

        def post(dd, av):
            us, _ = unwindset_from_loops(dd, "a.gb", [("vf_s_", str_cap + 4), ("vf_memcmp", str_cap + 4), ("append", str_cap + 4), ("operator+", str_cap + 4), ("vf_strlen", str_cap + 4), ("harness.", 8)])
            return av + (["--unwindset", us] if us else [])
        return steps, cbmc_argv(unwind=unwind, object_bits=11), post
    return build


def job(name, harness_file, defines=(), mutant=None, bound=None, canaries=1, weight=1.0, timeout=1200):
    j = Job(name, build_fn(harness_file, defines, mutant), "bounded", timeout=timeout, canaries=canaries, bound=bound,
            functions=["manifest_parser.cc:ManifestParser::ParseFileInclude", "::ParseRule", "::ParseLet", "::ParseDefault"], weight=weight)
    j.strict_bodies = True
    return j
