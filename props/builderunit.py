"""Shared unit: Builder::StartEdge / FinishCommand / Build (sliced from /repo/src/build.cc) against contract stubs of DiskInterface, CommandRunner,
Status, BuildLog, DepsLog, Plan and the binding accessors of Edge.  Used by the C01 / C05 / C16 / C04 / C20 checks."""
import os
import re

from engine import slicer
from engine.core import Job, VERIF
from engine.routeb import gotocc_cpp, cbmc_argv, STD, unwindset_from_loops

FUNCS = {
    "StartEdge": r'bool\s+Builder::StartEdge\s*\(',
    "FinishCommand": r'bool\s+Builder::FinishCommand\s*\(',
    "Build": r'ExitStatus\s+Builder::Build\s*\(',
    "SetFailureCode": r'void\s+Builder::SetFailureCode\s*\(',
    "ExtractDeps": r'bool\s+Builder::ExtractDeps\s*\(',
}


def check_shadow():
    b = slicer.read_src("src/build.h")
    g = slicer.read_src("src/graph.h")
    d = slicer.read_src("src/disk_interface.h")
    s = slicer.read_src("src/status.h")
    bl = slicer.read_src("src/build_log.h")
    dl = slicer.read_src("src/deps_log.h")
    br = slicer.read_src("src/build_result.h") if os.path.exists(os.path.join(slicer.REPO, "src/build_result.h")) else b
    ex = slicer.read_src("src/exit_status.h")
    for text, rx in [
        (b, r'const\s+BuildConfig&\s+config_;'), (b, r'Plan\s+plan_;'), (b, r'std::unique_ptr<CommandRunner>\s+command_runner_;'),
        (b, r'Status\*\s+status_;'), (b, r'typedef\s+std::map<const\s+Edge\*,\s*int>\s+RunningEdgeMap;'), (b, r'RunningEdgeMap\s+running_edges_;'),
        (b, r'int64_t\s+start_time_millis_;'), (b, r'std::string\s+lock_file_path_;'), (b, r'DiskInterface\*\s+disk_interface_;'),
        (b, r'DependencyScan\s+scan_;'), (b, r'ExitStatus\s+exit_code_\s*=\s*ExitSuccess;'), (b, r'ExitStatus\s+GetExitCode\(\)\s+const\s*\{\s*return\s+exit_code_;\s*\}'),
        (b, r'bool\s+dry_run\s*=\s*false;'), (b, r'int\s+failures_allowed\s*=\s*1;'),
        (b, r'virtual\s+size_t\s+CanRunMore\(\)\s+const\s*=\s*0;'), (b, r'virtual\s+bool\s+StartCommand\(Edge\*\s+edge\)\s*=\s*0;'),
        (b, r'virtual\s+BuildResult\s+WaitForCommandOrJobserverToken\(bool\s+watch_jobserver\)'),
        (b, r'bool\s+more_to_do\(\)\s+const\s*\{\s*return\s+wanted_edges_\s*>\s*0\s*&&\s*command_edges_\s*>\s*0;\s*\}'),
        (b, r'bool\s+work_ready\(\)\s+const\s*\{\s*return\s+!ready_\.empty\(\);\s*\}'),
        (g, r'std::string\s+GetBinding\(StringPiece\s+key\)\s+const;'), (g, r'bool\s+GetBindingBool\(StringPiece\s+key\)\s+const;'),
        (g, r'std::string\s+GetUnescapedDepfile\(\)\s+const;'), (g, r'std::string\s+GetUnescapedRspfile\(\)\s+const;'),
        (g, r'TimeStamp\s+command_start_time_\s*=\s*0;'), (g, r'BuildLog\*\s+build_log\(\)\s+const'), (g, r'DepsLog\*\s+deps_log\(\)\s+const'),
        (d, r'virtual\s+TimeStamp\s+Stat\(const\s+std::string&\s+path,\s*std::string\*\s+err\)\s+const\s*=\s*0;'),
        (d, r'bool\s+MakeDirs\(const\s+std::string&\s+path\);'),
        (d, r'virtual\s+bool\s+WriteFile\(const\s+std::string&\s+path,\s*const\s+std::string&\s+contents,'),
        (d, r'virtual\s+int\s+RemoveFile\(const\s+std::string&\s+path\)\s*=\s*0;'),
        (s, r'virtual\s+void\s+BuildEdgeStarted\(const\s+Edge\*\s+edge,'), (s, r'virtual\s+void\s+BuildEdgeFinished\(Edge\*\s+edge,\s*int64_t\s+start_time_millis,'),
        (s, r'virtual\s+void\s+BuildStarted\(\)\s*=\s*0;'), (s, r'virtual\s+void\s+BuildFinished\(\)\s*=\s*0;'),
        (bl, r'bool\s+RecordCommand\(Edge\*\s+edge,\s*int\s+start_time,\s*int\s+end_time,'),
        (dl, r'bool\s+RecordDeps\(Node\*\s+node,\s*TimeStamp\s+mtime,\s*const\s+std::vector<Node\*>&\s+nodes\);'),
        (br, r'bool\s+success\(\)\s+const\s*\{\s*return\s+status\s*==\s*ExitSuccess;\s*\}'),
        (br, r'JobserverTokenAvailable'), (br, r'struct\s+Interrupted'), (br, r'struct\s+Finished'),
        (ex, r'ExitSuccess=0,\s*ExitFailure,\s*ExitInterrupted=130,'),
    ]:
        if not re.search(rx, text):
            raise slicer.SliceError("shadow for the Builder unit out of date: /%s/ not found" % rx)


PRELUDE = r'''
#define VF_EDGE_BINDINGS
#include "graph.h"
#include <algorithm>
#include <utility>
using namespace std;
long nondet_long();
enum ExitStatus { ExitSuccess = 0, ExitFailure, ExitInterrupted = 130 };      /* exit_status.h (conformance-checked) */
static bool vf_streq(const char* a, const char* b) { size_t i = 0; for (; i < 17; i++) { if (a[i] != b[i]) return false; if (!a[i]) return true; } return false; }
std::string Edge::GetBinding(const char* key) const {
  if (vf_streq(key, "deps")) return vf_deps;
  if (vf_streq(key, "rspfile_content")) return vf_rspfile_content;
  if (vf_streq(key, "msvc_deps_prefix")) return std::string();
  __CPROVER_assert(0, "shadow Edge::GetBinding: unexpected key");
  return std::string();
}
bool Edge::GetBindingBool(const char* key) const {
  if (vf_streq(key, "restat")) return vf_restat;
  if (vf_streq(key, "generator")) return vf_generator;
  __CPROVER_assert(0, "shadow Edge::GetBindingBool: unexpected key");
  return false;
}
/* ---- ghost event log: what the builder did to the outside world, in order ---- */
enum { EV_MKDIRS = 1, EV_WRITE, EV_STAT, EV_REMOVE, EV_START, EV_STATUS_STARTED, EV_STATUS_FINISHED, EV_LOG_CMD, EV_LOG_DEPS, EV_PLAN_FINISHED, EV_PLAN_CLEAN, EV_LOG_CLOSE };
#define VF_EV_CAP 16
#define VF_PATHS 6
/* paths are interned: the harness registers the (concrete, distinct) paths it uses; an event stores the index, or -1 for an unknown path */
static std::string vf_known_path[VF_PATHS]; static int vf_known_n = 0;
static int vf_register_path(const std::string& p) { vf_known_path[vf_known_n] = p; return vf_known_n++; }
static int vf_path_id(const std::string& p) { int r = -1; for (int i = VF_PATHS - 1; i >= 0; i--) if (i < vf_known_n && vf_known_path[i] == p) r = i; return r; }
static int vf_ev_kind[VF_EV_CAP]; static int vf_ev_pid[VF_EV_CAP]; static long vf_ev_num[VF_EV_CAP]; static void* vf_ev_ptr[VF_EV_CAP];
static int vf_ev_n = 0;
static std::string vf_written_data; static int vf_writes_with_data = 0;      /* content of the last WriteFile with non-lock-file path */
static std::string vf_status_output;
static void vf_ev(int kind, int pid, long num, void* ptr) {
  __CPROVER_assert(vf_ev_n < VF_EV_CAP, "model capacity: event log"); __CPROVER_assume(vf_ev_n < VF_EV_CAP);
  vf_ev_kind[vf_ev_n] = kind; vf_ev_pid[vf_ev_n] = pid; vf_ev_num[vf_ev_n] = num; vf_ev_ptr[vf_ev_n] = ptr; vf_ev_n++;
}
static int vf_q_kind = 0, vf_q_pid = 0;
static int vf_count1(int kind) { int c = 0; for (int i = 0; i < VF_EV_CAP; i++) if (i < vf_ev_n && vf_ev_kind[i] == kind) c++; return c; }
static int vf_first1(int kind) { int r = -1; for (int i = VF_EV_CAP - 1; i >= 0; i--) if (i < vf_ev_n && vf_ev_kind[i] == kind) r = i; return r; }
static int vf_find0() { int r = -1; for (int i = VF_EV_CAP - 1; i >= 0; i--) if (i < vf_ev_n && vf_ev_kind[i] == vf_q_kind && vf_ev_pid[i] == vf_q_pid) r = i; return r; }
static int vf_count(int kind) { return vf_count1(kind); }
static int vf_first(int kind) { return vf_first1(kind); }
static int vf_find(int kind, int pid) { vf_q_kind = kind; vf_q_pid = pid; return vf_find0(); }     /* first event of that kind on that path, -1 if none */
/* ---- contract stubs of the collaborators ---- */
#include "string_piece.h"
enum { EV_READ = 20 };
struct DiskInterface {
  enum Status { Okay, NotFound, OtherError };
  int vf_read_status; std::string vf_read_content; long vf_remove_ret;
  /* contract of ReadFile: Okay => *contents is the file; NotFound / OtherError => *err set */
  Status ReadFile(const std::string& path, std::string* contents, std::string* err) {
    vf_ev(EV_READ, vf_path_id(path), vf_read_status, 0);
    if (vf_read_status == (int)Okay) { *contents = vf_read_content; return Okay; }
    *err = "read error";
    return vf_read_status == (int)NotFound ? NotFound : OtherError;
  }
  bool vf_fail_mkdirs, vf_fail_write; long vf_stat_ret[4]; int vf_stats; bool vf_prep_failed;      /* vf_prep_failed: some directory / response file could not be prepared */
  DiskInterface() : vf_read_status(0), vf_remove_ret(0), vf_fail_mkdirs(false), vf_fail_write(false), vf_stats(0), vf_prep_failed(false) {}
  bool MakeDirs(const std::string& path) { vf_ev(EV_MKDIRS, vf_path_id(path), 0, 0); bool ok = !(vf_fail_mkdirs && nondet_bool()); if (!ok) vf_prep_failed = true; return ok; }
  bool WriteFile(const std::string& path, const std::string& contents, bool crlf) {
    int id = vf_path_id(path);
    vf_ev(EV_WRITE, id, crlf ? 1 : 0, 0);
    if (id != 0) { vf_written_data = contents; vf_writes_with_data++; }        /* id 0 is the lock file by convention of the harnesses */
    bool ok = !(vf_fail_write && nondet_bool());
    if (!ok && id != 0) vf_prep_failed = true;      /* the lock file (id 0) is best effort: its result is not used */
    return ok;
  }
  TimeStamp Stat(const std::string& path, std::string* err) {       /* contract: -1 on error (then *err is set), 0 if missing, else the mtime */
    long r = vf_stat_ret[vf_stats < 4 ? vf_stats : 3]; vf_stats++;
    vf_ev(EV_STAT, vf_path_id(path), r, 0);
    if (r == -1) *err = "stat error";
    return r;
  }
  int RemoveFile(const std::string& path) { vf_ev(EV_REMOVE, vf_path_id(path), 0, 0); return (int)vf_remove_ret; }
};
struct Status {
  void BuildEdgeStarted(const Edge* edge, int64_t start_time_millis) { (void)start_time_millis; vf_ev(EV_STATUS_STARTED, -1, 0, (void*)edge); }
  void BuildEdgeFinished(Edge* edge, int64_t start_time_millis, int64_t end_time_millis, ExitStatus exit_code, const std::string& output) {
    (void)start_time_millis; (void)end_time_millis; vf_status_output = output; vf_ev(EV_STATUS_FINISHED, -1, (long)exit_code, (void*)edge);
  }
  int vf_build_started, vf_build_finished;
  Status() : vf_build_started(0), vf_build_finished(0) {}
  void BuildStarted() { vf_build_started++; }
  void BuildFinished() { vf_build_finished++; }
};
struct BuildLog {
  bool vf_fail;
  BuildLog() : vf_fail(false) {}
  bool RecordCommand(Edge* edge, int start_time, int end_time, TimeStamp mtime) { (void)start_time; (void)end_time; vf_ev(EV_LOG_CMD, -1, (long)mtime, (void*)edge); return !vf_fail; }
  void Close() { vf_ev(EV_LOG_CLOSE, -1, 0, 0); }
};
static std::vector<Node*>* vf_deps_nodes_seen = 0;
struct DepsLog {
  bool vf_fail;
  DepsLog() : vf_fail(false) {}
  bool RecordDeps(Node* node, TimeStamp mtime, const std::vector<Node*>& nodes) { vf_ev(EV_LOG_DEPS, vf_path_id(node->path_), (long)mtime, (void*)(nodes.size())); return !vf_fail; }
};
struct DependencyScan {
  BuildLog* vf_bl; DepsLog* vf_dl;
  DependencyScan() : vf_bl(0), vf_dl(0) {}
  BuildLog* build_log() const { return vf_bl; }
  DepsLog* deps_log() const { return vf_dl; }
};
struct BuildResult {                         /* shadow of build_result.h (std::variant): same observers, by contract */
  struct CommandCompleted {
    Edge* edge; ExitStatus status; std::string output;
    CommandCompleted() : edge(0), status(ExitFailure) {}
    bool success() const { return status == ExitSuccess; }
  };
  int vf_kind;                               /* 1 CommandCompleted, 2 JobserverTokenAvailable, 3 Interrupted, 4 Finished */
  CommandCompleted vf_cc;
  BuildResult() : vf_kind(0) {}
  bool finished() const { return vf_kind == 4; }
  bool interrupted() const { return vf_kind == 3; }
  bool jobserver_token_available() const { return vf_kind == 2; }
  bool command_completed() const { return vf_kind == 1; }
  ExitStatus exit_status() const { return vf_kind == 1 ? vf_cc.status : (vf_kind == 3 ? ExitInterrupted : (vf_kind == 2 || vf_kind == 4 ? ExitSuccess : ExitFailure)); }
  bool success() const { return exit_status() == ExitSuccess; }
  CommandCompleted& GetCommandCompleted() { return vf_cc; }
};
struct vf_JobserverClient { int x; };
struct DepfileParserOptions;
struct BuildConfig { bool dry_run; int failures_allowed; int depfile_parser_options; BuildConfig() : dry_run(false), failures_allowed(1), depfile_parser_options(0) {} };
struct CommandRunner {
  bool vf_fail_start; int vf_waits; BuildResult vf_results[4]; size_t vf_capacity[8]; int vf_cap_calls;
  CommandRunner() : vf_fail_start(false), vf_waits(0), vf_cap_calls(0) {}
  size_t CanRunMore();                     /* defined by the Build harness (contract from C06: at least 1 when nothing is running) */
  bool StartCommand(Edge* edge) { vf_ev(EV_START, -1, 0, (void*)edge); return !vf_fail_start; }
  BuildResult WaitForCommandOrJobserverToken(bool watch_jobserver);        /* defined by the Build harness */
  static CommandRunner* factory(const BuildConfig& config, vf_JobserverClient* jobserver) { (void)config; (void)jobserver; __CPROVER_assert(0, "harness: the command runner is injected"); return 0; }
};
struct DryRunCommandRunner : public CommandRunner {};
template <class T> struct vf_UP { T* p; vf_UP() : p(0) {} T* get() const { return p; } void reset(T* q) { p = q; } };
struct Plan {                                /* contract stub of Plan for the Builder unit (the real Plan is under contract in C03/C04/C05/C06) */
  enum EdgeResult { kEdgeFailed, kEdgeSucceeded };
  bool vf_ef_ret, vf_clean_ret;
  Plan() : vf_ef_ret(true), vf_clean_ret(true) {}
  bool EdgeFinished(Edge* edge, EdgeResult result, std::string* err) { vf_ev(EV_PLAN_FINISHED, -1, (long)result, (void*)edge); if (!vf_ef_ret) *err = "dyndep error"; return vf_ef_ret; }
  bool CleanNode(DependencyScan* scan, Node* node, std::string* err) { (void)scan; vf_ev(EV_PLAN_CLEAN, vf_path_id(node->path_), 0, (void*)node); if (!vf_clean_ret) *err = "error"; return vf_clean_ret; }
  void PrepareQueue();
  bool more_to_do() const;
  bool work_ready() const;
  Edge* FindWork();
};
static bool g_keep_rsp = false;
static int errno = 0;
#define strerror(x) "io error"
#define METRIC_RECORD(x)
static long vf_now = 0;
static int64_t GetTimeMillis() { long d = nondet_long(); __CPROVER_assume(d >= 0 && d < 1000000); vf_now += d; return vf_now; }
static void vf_fatal() { __CPROVER_assert(0, "post: Fatal() is never reached"); __CPROVER_assume(0); }
#define Fatal(...) vf_fatal()
static bool g_keep_depfile = false;
struct DepfileParserOptions { int x; DepfileParserOptions(int v = 0) : x(v) {} };
static bool vf_depparse_ok = true; static int vf_depparse_n = 0; char vf_dep_text0[4] = { 97, 0, 0, 0 }; char vf_dep_text1[4] = { 98, 0, 0, 0 };
struct DepfileParser {                       /* contract stub (the real parser is under contract in C15): true => ins_ are the dependency names, pieces of *content */
  std::vector<StringPiece> outs_; std::vector<StringPiece> ins_;
  DepfileParser(DepfileParserOptions o) { (void)o; }
  bool Parse(std::string* content, std::string* err) {
    (void)content;
    if (!vf_depparse_ok) { *err = "depfile parse error"; return false; }
    if (vf_depparse_n > 0) ins_.push_back(StringPiece(vf_dep_text0, 1));
    if (vf_depparse_n > 1) ins_.push_back(StringPiece(vf_dep_text1, 1));
    return true;
  }
};
static bool vf_cl_ok = true;
struct CLParser {                            /* contract stub (FilterShowIncludes etc. are under contract in C13) */
  std::set<std::string> includes_;
  bool Parse(const std::string& output, const std::string& deps_prefix, std::string* filtered_output, std::string* err) {
    (void)output; (void)deps_prefix;
    if (!vf_cl_ok) { *err = "cl parse error"; return false; }
    *filtered_output = "filtered"; includes_.insert(std::string("h1")); return true;
  }
};
void CanonicalizePath(char* path, size_t* len, uint64_t* slash_bits) { (void)path; (void)len; *slash_bits = 0; }     /* contract stub (under contract in C14) */
static Node vf_state_nodes[3]; static int vf_getnode_calls = 0;
struct State { Node* GetNode(StringPiece path, uint64_t slash_bits) { (void)path; (void)slash_bits; Node* n = &vf_state_nodes[vf_getnode_calls < 3 ? vf_getnode_calls : 2]; vf_getnode_calls++; return n; } };
struct Builder {
  State* state_;
  Builder() : state_(0),  config_p_(0), status_(0), start_time_millis_(0), disk_interface_(0), exit_code_(ExitSuccess), vf_cleanups(0) {}
  BuildConfig* config_p_;                    /* real: const BuildConfig& config_ (reference members are rejected by the front end) */
  Plan plan_;
  vf_UP<vf_JobserverClient> jobserver_;
  vf_UP<CommandRunner> command_runner_;
  Status* status_;
  ExitStatus GetExitCode() const { return exit_code_; }
  typedef std::map<Edge*, int64_t> RunningEdgeMap;    /* real: std::map<const Edge*, int>: const is dropped from template arguments by the front end, and the model pair has no
                                                         converting constructor, so the mapped type is the int64_t that make_pair(edge, start_time_millis) carries (differs only beyond 2^31 ms) */
  RunningEdgeMap running_edges_;
  int64_t start_time_millis_;
  std::string lock_file_path_;
  DiskInterface* disk_interface_;
  DependencyScan scan_;
  ExitStatus exit_code_;
  int vf_cleanups;
  void SetFailureCode(ExitStatus code);
  bool StartEdge(Edge* edge, std::string* err);
  bool FinishCommand(BuildResult::CommandCompleted& result, std::string* err);
  ExitStatus Build(std::string* err);
  void Cleanup();
  bool AlreadyUpToDate() const;
  bool ExtractDeps(BuildResult::CommandCompleted& result, const std::string& deps_type, const std::string& deps_prefix, std::vector<Node*>* deps_nodes, std::string* err);
};
#define config_ (*config_p_)
/* ---- verbatim slices of /repo/src/build.cc (lowerings L10, L24 on unique_ptr members) ---- */
%(funcs)s
/* ---- end of slices ---- */
'''


def unit_text(real, mutant=None):
    check_shadow()
    parts = []
    for name in real:
        f = slicer.extract_function("src/build.cc", FUNCS[name])
        if mutant and getattr(mutant, "target", None) == name:
            f = mutant(f)
        parts.append(f)
    body = "\n\n".join(parts)
    body, n10 = re.subn(r'\bassert\(([^;]*?)\s*&&\s*"[^"]*"\)', r'assert(\1)', body)
    body, n24 = re.subn(r'\b(command_runner_|jobserver_)->', r'\1.get()->', body)
    body, n20 = re.subn(r'\bRunningEdgeMap::iterator\b', 'std::map<Edge*, int64_t>::iterator', body)   # L20: class-scope typedef spelled out
    counts = {"L10": n10, "L24": n24, "L20": n20}
    return PRELUDE % {"funcs": body}, counts


def build_fn(harness_file, real, defines=(), mutant=None, unwind=20, str_cap=24, vec_cap=3):
    def build(d):
        unit, counts = unit_text(real, mutant)
        with open(os.path.join(VERIF, "props", "harness", harness_file)) as f:
            h = f.read()
        with open(os.path.join(d, "unit.cc"), "w") as f:
            f.write(unit + h)
        from engine.routeb import mirrored_string_piece
        with open(os.path.join(d, "string_piece.h"), "w") as f:
            f.write(mirrored_string_piece())
        with open(os.path.join(d, "util.h"), "w") as f:
            f.write(slicer.read_src("src/util.h"))
        steps = [gotocc_cpp(["unit.cc"], defines=list(defines) + ["VF_STR_CAP=%d" % str_cap, "VF_VEC_CAP=%d" % vec_cap, "VF_MAP_CAP=4", "VF_SET_CAP=4"],
                            includes=[d, os.path.join(VERIF, "props", "harness"), os.path.join(VERIF, "stubs", "ninja_plan"), os.path.join(VERIF, "stubs", "cstring"), STD, os.path.join(VERIF, "stubs")])]
        build.lowerings = counts

        def post(dd, av):
            us, _ = unwindset_from_loops(dd, "a.gb", [("vf_s_", str_cap + 4), ("append", str_cap + 4), ("vf_count1", 18), ("vf_first1", 18), ("vf_find0", 18), ("harness.", 18)])
            return av + (["--unwindset", us] if us else [])
        return steps, cbmc_argv(unwind=unwind, object_bits=11), post
    return build


def job(name, harness_file, real, defines=(), mutant=None, bound=None, canaries=1, weight=1.0, timeout=1200, unwind=20, str_cap=24):
    j = Job(name, build_fn(harness_file, real, defines, mutant, unwind=unwind, str_cap=str_cap), "bounded", timeout=timeout, canaries=canaries, bound=bound,
            functions=["build.cc:Builder::" + r for r in real], weight=weight)
    j.strict_bodies = True
    return j


TRUST = ["cbmc 6.11.0 C++ front end", "model std::string/vector/map",
         "shadow struct Builder (members conformance-checked by regex against build.h; reference member config_ -> pointer, std::unique_ptr -> plain holder, "
         "RunningEdgeMap key without const), shadow BuildResult (std::variant -> tagged struct with the same observers)",
         "contract stubs: DiskInterface (MakeDirs/WriteFile/Stat/RemoveFile record events, fail nondeterministically), CommandRunner, Status, BuildLog::RecordCommand, DepsLog::RecordDeps, "
         "Plan::EdgeFinished/CleanNode (the real Plan is under contract in C03-C06), Edge binding accessors (ghost fields), GetTimeMillis (monotone)",
         "lowerings L10 (assert(c && \"text\")), L24 (unique_ptr member -> spelled .get()->)"]
