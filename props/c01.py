"""C01 (record-keeping clauses, modular): Builder::FinishCommand and Builder::StartEdge (props/builderunit.py)."""
from engine.selftest import subst
from props import builderjobs, scanjobs, outdirtyjobs

ID = "C01"
USES_CPP = True

MANIFEST = {
    "level_claimed": {
        "category": "other",
        "text": "Record-keeping clauses only, modular and bounded: the contract of Builder::FinishCommand (real text of build.cc, callees by contract) states what a successful command leaves behind - "
                "the build-log record carries the command's START time taken from the file system before it ran (so a file edited while the command was running is newer than the record "
                "and is picked up by the next run), except for restat/generator rules and an unknown start time, where it carries the newest of that and the outputs' own times; "
                "the dependencies a deps command reported are recorded for EVERY output with the output's mtime, also when restat left the output untouched; a failed command or a failed "
                "dependency extraction records nothing. Builder::StartEdge takes the start time (lock file touched, then stat-ed) before starting the command. "
                "Scan side (DependencyScan::RecomputeNodeDirty, real text, callees by contract): every output of a statement is marked dirty exactly when a declared or discovered input, an output check or "
                "missing dependency information says so; validation targets are collected; recorded dependencies are loaded on the first visit - except, KNOWN FINDING (listed under C10), when the statement is already dirty. "
                "Output rule (RecomputeOutputsDirtyCache, real text): a statement is out of date exactly when the documented rule says so (see C02); a phony alias that does not exist takes over its newest input's mtime. "
                "NOT decided: RecomputeEdgesInputsDirty and the loaders (C++17), depfile/dyndep loading, 'equals a clean build' as a whole-history statement.",
        "design_ref": "DESIGN.md 5 C01",
    },
    "level_note": "trusted: " + "; ".join(builderjobs.TRUST),
    "technique": "contract-based modular verification with CBMC: real Builder::FinishCommand / StartEdge against callee contract stubs over a ghost event log (assume/assert harness); bounded",
}


def jobs(tier, mutant=None):
    return builderjobs.select(tier, ["B1", "B2"], r'\bC01\b', mutant) + scanjobs.select(tier, ["S1", "S3"], r'\bC01\b', mutant) + outdirtyjobs.select(tier, ["O1", "O3"], r'\bC01\b', mutant)


def _m(target, old, new):
    f = subst(old, new)
    f.target = target
    return f


MUTANTS = [
    ("deps_not_recorded_after_restat_clean", _m("FinishCommand", "if (!deps_type.empty() && !config_.dry_run) {", "if (!deps_type.empty() && !config_.dry_run && record_mtime != 0) {")),
    ("output_mtime_recorded_for_normal_rules", _m("FinishCommand", "if (record_mtime == 0 || restat || generator) {", "if (true) {")),
    ("restat_ignores_newer_outputs", _m("FinishCommand", "if (new_mtime > record_mtime)\n          record_mtime = new_mtime;", "")),
    ("start_time_after_command", _m("StartEdge", "  edge->command_start_time_ = build_start;\n", "")),
    ("only_requested_output_marked_dirty", _m("RecomputeNodeDirty", "    for (auto o : edge->outputs_)\n      o->MarkDirty();", "    node->MarkDirty();")),
    ("validations_dropped", _m("RecomputeNodeDirty", "  validation_nodes->insert(validation_nodes->end(),\n      edge->validations_.begin(), edge->validations_.end());\n", "")),
    ("phony_mtime_not_propagated", _m("Phony", "    output->UpdatePhonyMtime(most_recent_input->mtime());", "")),
    ("first_output_deps_only", _m("FinishCommand", "         o != edge->outputs_.end(); ++o) {\n      TimeStamp deps_mtime", "         o != edge->outputs_.begin() + 1; ++o) {\n      TimeStamp deps_mtime")),
]


def replay(job, ob, vals, scratch):
    keep = [(lhs, data) for lhs, data, _b, fn, _l in vals if fn == "harness" and lhs and not lhs.startswith("return_value")]
    return "state: " + " ".join("%s=%s" % kv for kv in keep[-30:]), None, {
        "counterexample_state": ["%s=%s" % kv for kv in keep[-80:]],
        "note": "modular contract obligation: the counterexample is a builder state and callee results at one call; no native replay is built for it"}


def describe(tier):
    return {
        "functions": ["build.cc:Builder::FinishCommand", "build.cc:Builder::StartEdge", "graph.cc:DependencyScan::RecomputeNodeDirty"],
        "checker_cmd": "goto-cc -std=c++11 unit.cc (slices + stubs + harness); cbmc a.gb --unwind N --unwinding-assertions + checks",
        "trusted_base": builderjobs.TRUST + scanjobs.TRUST + outdirtyjobs.TRUST,
        "bounds": {t: "edges with 1-2 outputs; all flags, statuses, times and callee failures symbolic" for t in ("quick", "thorough")},
        "assumptions": builderjobs.ASSUME + scanjobs.ASSUME,
        "silent": ["dirty computation (RecomputeNodeDirty/RecomputeOutputDirty)", "depfile / deps-log / dyndep loading", "manifest regeneration, interrupted builds, histories"],
        "explanation": "Postcondition of FinishCommand over a ghost event log (what was recorded, with which mtime, in which order), derived from the C01 statement's record-keeping sentences.",
    }
