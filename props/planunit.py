"""Shared unit: struct Plan (sliced from /repo/src/build.h) and its member functions (sliced from /repo/src/build.cc) plus
Edge::AllInputsReady (graph.cc), compiled against the shadow collaborators in stubs/ninja_plan/graph.h.  Used by the
C03 / C04 / C05 / C06 / C17 checks: each scenario is one contract harness (pre: a symbolic small plan state, post: the clause
of the property, stated over the plan's abstract view)."""
import os
import re

from engine import slicer
from engine.core import Job, VERIF
from engine.routeb import gotocc_cpp, cbmc_argv, STD, unwindset_from_loops

PLAN_FUNCS = [
    ("Plan", r'Plan::Plan\s*\('), ("Reset", r'void\s+Plan::Reset\s*\('),     ("AddSubTarget", r'bool\s+Plan::AddSubTarget\s*\('), ("EdgeWanted", r'void\s+Plan::EdgeWanted\s*\('),
    ("FindWork", r'Edge\*\s+Plan::FindWork\s*\('), ("ScheduleWork", r'void\s+Plan::ScheduleWork\s*\('),
    ("EdgeFinished", r'bool\s+Plan::EdgeFinished\s*\('), ("NodeFinished", r'bool\s+Plan::NodeFinished\s*\('),
    ("EdgeMaybeReady", r'bool\s+Plan::EdgeMaybeReady\s*\('), ("CleanNode", r'bool\s+Plan::CleanNode\s*\('),
    ("RefreshDyndepDependents", r'bool\s+Plan::RefreshDyndepDependents\s*\('), ("UnmarkDependents", r'void\s+Plan::UnmarkDependents\s*\('),
    ("ScheduleInitialEdges", r'void\s+Plan::ScheduleInitialEdges\s*\('), ("PrepareQueue", r'void\s+Plan::PrepareQueue\s*\('),
]
GRAPH_FUNCS = [("AllInputsReady", r'bool\s+Edge::AllInputsReady\s*\(')]


def check_shadow():
    g = slicer.read_src("src/graph.h")
    s = slicer.read_src("src/state.h")
    b = slicer.read_src("src/build.h")
    for text, rx in [
        (g, r'bool\s+dirty\(\)\s+const\s*\{\s*return\s+dirty_;\s*\}'),
        (g, r'void\s+set_dirty\(bool\s+dirty\)\s*\{\s*dirty_\s*=\s*dirty;\s*\}'),
        (g, r'Edge\*\s+in_edge\(\)\s+const\s*\{\s*return\s+in_edge_;\s*\}'),
        (g, r'bool\s+generated_by_dep_loader\(\)\s+const\s*\{\s*return\s+generated_by_dep_loader_;\s*\}'),
        (g, r'const\s+std::vector<Edge\*>&\s+out_edges\(\)\s+const\s*\{\s*return\s+out_edges_;\s*\}'),
        (g, r'TimeStamp\s+mtime\(\)\s+const\s*\{\s*return\s+mtime_;\s*\}'),
        (g, r'bool\s+outputs_ready\(\)\s+const\s*\{\s*return\s+outputs_ready_;\s*\}'),
        (g, r'Pool\*\s+pool\(\)\s+const\s*\{\s*return\s+pool_;\s*\}'),
        (g, r'std::vector<Node\*>\s+inputs_;'), (g, r'std::vector<Node\*>\s+outputs_;'),
        (g, r'int\s+order_only_deps_\s*=\s*0;'), (g, r'bool\s+deps_missing_\s*=\s*false;'),
        (g, r'VisitMark\s+mark_\s*=\s*VisitNone;'), (g, r'bool\s+outputs_ready_\s*=\s*false;'),
        (g, r'Jobserver::Slot\s+job_slot_;'),
        (g, r'bool\s+exists\(\)\s+const\s*\{\s*return\s+exists_\s*==\s*ExistenceStatusExists;'),
        (s, r'bool\s+ShouldDelayEdge\(\)\s+const\s*\{\s*return\s+depth_\s*!=\s*0;\s*\}'),
        (s, r'void\s+EdgeScheduled\(const\s+Edge&\s+edge\);'), (s, r'void\s+EdgeFinished\(const\s+Edge&\s+edge\);'),
        (s, r'void\s+DelayEdge\(Edge\*\s+edge\);'), (s, r'void\s+RetrieveReadyEdges\(EdgePriorityQueue\*\s+ready_queue\);'),
        (b, r'Status\*\s+status_;'), (b, r'std::unique_ptr<Jobserver::Client>\s+jobserver_;'),
        (b, r'bool\s+LoadDyndeps\(Node\*\s+node,\s*std::string\*\s+err\);|bool\s+LoadDyndeps\(Edge\*\s+edge,\s*std::string\*\s+err\);'),
    ]:
        if not re.search(rx, text):
            raise slicer.SliceError("shadow for the Plan unit out of date: /%s/ not found" % rx)


def lower_range_for_ptr(text):
    """L7: `for (T* x : e) {` over a std::vector<T*> -> iterator loop."""
    def rep(m):
        ty, var, ex = m.group(1), m.group(2), m.group(3)
        return ("for (std::vector<%s*>::const_iterator vf_it_%s = %s.begin(); vf_it_%s != %s.end(); ++vf_it_%s) { %s* %s = *vf_it_%s;"
                % (ty, var, ex, var, ex, var, ty, var, var))
    return re.subn(r'for\s*\(\s*(\w+)\s*\*\s*(\w+)\s*:\s*(\w+)\s*\)\s*\{', rep, text)


PRELUDE = r'''
#include "graph.h"
#include <algorithm>
#include <utility>
/* std::set<T*> with the default comparator orders by address, which is unspecified across objects (and a pointer '<' across objects is flagged by
   the verifier).  The Plan code never depends on the iteration order of such sets, so they are modelled as insertion-ordered sets with pointer equality. */
namespace std {
template <class T> class vf_uset {
 public:
  typedef T* iterator; typedef const T* const_iterator; typedef T value_type;
  T d_[VF_SET_CAP]; size_t n_;
  vf_uset() : n_(0) { for (size_t k = 0; k < VF_SET_CAP; k++) d_[k] = T(); }   /* defined slack: keeps the points-to sets of unused slots small */
  size_t size() const { return n_; } bool empty() const { return n_ == 0; }
  iterator begin() { return d_; } iterator end() { return d_ + n_; }
  const_iterator begin() const { return d_; } const_iterator end() const { return d_ + n_; }
  size_t count(const T& v) const { size_t c = 0; for (size_t k = 0; k < VF_SET_CAP; k++) if (k < n_ && d_[k] == v) c = 1; return c; }
  vf_pair<iterator, bool> insert(const T& v) {
    vf_pair<iterator, bool> r;
    for (size_t k = 0; k < VF_SET_CAP; k++) if (k < n_ && d_[k] == v) { r.first = d_ + k; r.second = false; return r; }
    __CPROVER_assert(n_ < VF_SET_CAP, "model capacity: set::insert"); __CPROVER_assume(n_ < VF_SET_CAP);
    d_[n_] = v; n_++; r.first = d_ + (n_ - 1); r.second = true; return r;
  }
};
}
#define set vf_uset
using namespace std;
/* ---- shadows / contract stubs of the collaborators of Plan (build.h) ---- */
struct Status {
  int vf_added, vf_removed;
  Status() : vf_added(0), vf_removed(0) {}
  void EdgeAddedToPlan(const Edge* e) { (void)e; vf_added++; }
  void EdgeRemovedFromPlan(const Edge* e) { (void)e; vf_removed++; }
};
struct vf_JobserverClient {
  int vf_released;
  vf_JobserverClient() : vf_released(0) {}
  Jobserver::Slot TryAcquire() { Jobserver::Slot s; s.v = nondet_bool() ? 1 : -1; return s; }
  void Release(Jobserver::Slot s) { (void)s; vf_released++; }
};
struct vf_JsPtr { vf_JobserverClient* p; vf_JsPtr() : p(0) {} vf_JobserverClient* get() const { return p; } };
static int vf_loaddyndeps_calls = 0; static bool vf_loaddyndeps_failed = false;
struct Builder {
  Status* status_;
  vf_JsPtr jobserver_;
  Builder() : status_(0) {}
  /* contract: false => *err non-empty */
  bool LoadDyndeps(Edge* edge, std::string* err) { (void)edge; vf_loaddyndeps_calls++; if (nondet_bool()) return true; *err = "dyndep error"; vf_loaddyndeps_failed = true; return false; }
};
struct Dyndeps { std::vector<Node*> implicit_inputs_; };
static int vf_scan_calls = 0; static Edge* vf_scan_edge = 0; static Node* vf_scan_mri = 0; static bool vf_scan_says_dirty = false;
static int vf_recompute_dirty_calls = 0; static Node* vf_rd_node[3]; static bool vf_rd_ok[3] = { true, true, true }; static bool vf_rd_makes_dirty[3]; static Node* vf_rd_validation[3];
struct DependencyScan {
  /* contract of RecomputeOutputsDirty: reports through *dirty whether some output of `edge` is dirty w.r.t. most_recent_input */
  bool RecomputeOutputsDirty(Edge* edge, Node* most_recent_input, bool* dirty, std::string* err) {
    (void)err; vf_scan_calls++; vf_scan_edge = edge; vf_scan_mri = most_recent_input; *dirty = vf_scan_says_dirty; return true;
  }
  /* contract of RecomputeDirty: re-examines `node` (may mark it dirty), reports validation targets found on the way, false => *err set.  Scripted per call by the harness. */
  bool RecomputeDirty(Node* node, std::vector<Node*>* validation_nodes, std::string* err) {
    int k = vf_recompute_dirty_calls < 3 ? vf_recompute_dirty_calls : 2;
    vf_rd_node[k] = node; vf_recompute_dirty_calls++;
    if (!vf_rd_ok[k]) { *err = "scan error"; return false; }
    if (vf_rd_makes_dirty[k]) node->dirty_ = true;
    if (vf_rd_validation[k] != 0) validation_nodes->push_back(vf_rd_validation[k]);
    return true;
  }
};
static std::vector<Node*>::iterator vf_find_if_dirty(std::vector<Node*>::iterator first, std::vector<Node*>::iterator last) {
  for (; first != last; ++first) if ((*first)->dirty()) return first;      /* L25: find_if(first, last, mem_fn(&Node::dirty)) */
  return last;
}
#define unordered_map map
#define METRIC_RECORD(x)
#define private public
/* ---- verbatim slice of struct Plan from /repo/src/build.h ---- */
%(plan_struct)s
/* ---- end ---- */
#undef private
/* ---- verbatim slices of /repo/src/build.cc (L7 range-for, std::move(x) -> model move) and /repo/src/graph.cc ---- */
%(funcs)s
/* ---- end of slices ---- */
/* Plan::AddTarget = targets_.push_back(target) + AddSubTarget(target, NULL, err, NULL); std::vector<const Node*> is mis-typed by the front end
   (const dropped from the template argument), so the one-line wrapper is replaced by its definition minus the bookkeeping vector */
static int vf_addtarget_calls = 0;
bool Plan::AddTarget(const Node* target, string* err) { vf_addtarget_calls++; return AddSubTarget(target, NULL, err, NULL); }

/* independent statement of "all inputs ready" (C04): every producer of every input (explicit, implicit, order-only) has finished */
static bool vf_spec_all_inputs_ready(const Edge* e) {
  bool r = true;
  for (size_t i = 0; i < VF_VEC_CAP; i++)
    if (i < e->inputs_.size()) { const Node* n = e->inputs_.d_[i]; if (n->in_edge_ != 0 && !n->in_edge_->outputs_ready_) r = false; }
  return r;
}
static Plan* vf_plan = 0;
static int vf_started = 0; static Edge* vf_started_edges[8];
static void vf_edge_becomes_startable(Edge* e) {
  __CPROVER_assert(vf_spec_all_inputs_ready(e), "post C04: an edge is handed to the ready queue / its pool only when every producer of each of its inputs has finished");
  __CPROVER_assert(!e->outputs_ready_, "post C06: an edge that already finished is never scheduled again");
  for (int i = 0; i < 8; i++) if (i < vf_started) __CPROVER_assert(vf_started_edges[i] != e, "post C06: each build statement is scheduled at most once");
  if (vf_started < 8) vf_started_edges[vf_started] = e;
  vf_started++;
}
void EdgePriorityQueue::push(Edge* e) {
  vf_edge_becomes_startable(e);
  __CPROVER_assert(n_ < VF_Q_CAP, "model capacity: ready queue"); __CPROVER_assume(n_ < VF_Q_CAP);
  d_[n_++] = e; vf_pushes++;
}
void Pool::DelayEdge(Edge* edge) { vf_edge_becomes_startable(edge); vf_delayed++; }
'''


def unit_text(real, mutant=None, rec=()):
    """real: names of the functions whose REAL text is compiled (all others are declared by the sliced struct and, when called, must be
    given a contract stub by the harness - the engine refuses runs with body-less callees).  rec: names of self-recursive functions whose
    inner calls are replaced by `vf_rec_<name>(this, ...)`, the function's own contract (R1: modular treatment of recursion)."""
    check_shadow()
    st = slicer.extract_block("src/build.h", r'struct\s+Plan\s*\{')
    parts = []
    table = dict(PLAN_FUNCS)
    gtable = dict(GRAPH_FUNCS)
    nrec = 0
    for name in real:
        if name in table:
            f = slicer.extract_function("src/build.cc", table[name])
        elif name in gtable:
            f = slicer.extract_function("src/graph.cc", gtable[name])
        else:
            raise slicer.SliceError("unknown function %s" % name)
        if mutant and getattr(mutant, "target", None) == name:
            f = mutant(f)
        if name in rec:
            hdr_end = f.index("{")
            body_, k = re.subn(r'(?<![\w:>.])%s\(' % name, 'vf_rec_%s(this, ' % name, f[hdr_end:])
            if k == 0:
                raise slicer.SliceError("R1: no recursive call of %s found" % name)
            nrec += k
            f = f[:hdr_end] + body_
        parts.append(f)
    body = "\n\n".join(parts)
    body, n7 = lower_range_for_ptr(body)
    # L24: `jobserver_->m(` on a std::unique_ptr member -> `jobserver_.get()->m(` (definition of unique_ptr::operator->; the front end has no user operator->)
    body, n24 = re.subn(r'\bjobserver_->', 'jobserver_.get()->', body)
    # L25: find_if(b, e, mem_fn(&Node::dirty)) -> vf_find_if_dirty(b, e): the definition of find_if over mem_fn spelled out (the front end cannot deduce
    # templates over pointers to member functions)
    body, n25 = re.subn(r'\bfind_if\(\s*(\w+)\s*,\s*(\w+)\s*,\s*mem_fn\(&Node::dirty\)\s*\)', r'vf_find_if_dirty(\1, \2)', body)
    if re.search(r'\bmem_fn\b|\bfind_if\b', body):
        raise slicer.SliceError("L25: an uncovered find_if/mem_fn instance remains")
    # L27: `if (T* x = e) {` -> `T* x = e; if (x) {` (declaration in a condition crashes goto-cc; the name's scope widens to the enclosing block, a clash would not compile)
    body, n27 = re.subn(r'\bif\s*\(\s*(\w+)\s*\*\s*(\w+)\s*=\s*([^;{}]+?)\)\s*\{', r'\1* \2 = \3; if (\2) {', body)
    counts = {"L7": n7, "L24": n24, "L25": n25, "L27": n27, "R1": nrec}
    return PRELUDE % {"plan_struct": st, "funcs": body}, counts


def build_fn(harness_file, real, defines=(), mutant=None, rec=(), unwind=10, object_bits=11, str_cap=48):
    def build(d):
        unit, counts = unit_text(real, mutant, rec)
        with open(os.path.join(VERIF, "props", "harness", harness_file)) as f:
            h = f.read()
        with open(os.path.join(d, "unit.cc"), "w") as f:
            f.write(unit + h)
        steps = [gotocc_cpp(["unit.cc"], defines=list(defines) + ["VF_STR_CAP=%d" % str_cap, "VF_VEC_CAP=3", "VF_MAP_CAP=5", "VF_SET_CAP=5"],
                            includes=[os.path.join(VERIF, "props", "harness"), os.path.join(VERIF, "stubs", "ninja_plan"), os.path.join(VERIF, "stubs", "cstring"), STD, os.path.join(VERIF, "stubs")])]
        build.lowerings = counts

        def post(dd, av):
            us, _ = unwindset_from_loops(dd, "a.gb", [("vf_s_", str_cap + 4), ("vf_contains", str_cap + 4), ("append", str_cap + 4), ("operator+", str_cap + 4)])
            return av + (["--unwindset", us] if us else [])
        return steps, cbmc_argv(unwind=unwind, object_bits=object_bits), post
    return build


def job(name, harness_file, real, defines=(), mutant=None, rec=(), strength="bounded", bound=None, canaries=1, weight=1.0, timeout=900, unwind=10, str_cap=48):
    j = Job(name, build_fn(harness_file, real, defines, mutant, rec, unwind=unwind, str_cap=str_cap), strength, timeout=timeout, canaries=canaries, bound=bound,
            functions=["build.cc:Plan::" + r if r in dict(PLAN_FUNCS) else "graph.cc:Edge::" + r for r in real], weight=weight)
    j.strict_bodies = True
    return j
