"""C20 (console-lock clause): LinePrinter::Print / PrintOrBuffer / PrintOnNewLine / SetConsoleLocked, sliced from
/repo/src/line_printer.cc with the real struct from line_printer.h; stdout is a ghost byte sequence."""
import os
import re

from engine import slicer
from engine.core import Job, VERIF, extract_inputs
from engine.routeb import gotocc_cpp, cbmc_argv, STD, unwindset_from_loops
from engine.selftest import subst
from props import builderjobs

ID = "C20"
USES_CPP = True   # adds the front-end assumption canaries (engine/frontend.py) to every run of this check

MANIFEST = {
    "level_claimed": {
        "category": "other",
        "text": "Console-lock clause only ('while a console-pool command owns the terminal, other commands' output is held back and shown afterwards with "
                "none of it lost; only progress lines of silent commands may be coalesced'): for every sequence of up to K operations "
                "(PrintOnNewLine with arbitrary bytes incl. NUL, Print of a status line) issued while the console is locked, nothing reaches stdout "
                "before the unlock; at unlock the bytes written are exactly, in order, every PrintOnNewLine argument, each preceded by the status line that "
                "was pending when it arrived and by the blank-line separator rule; a status line still pending is printed last. BOUNDED (K <= 3/4 operations, "
                "strings <= 2 bytes). Per-command pipe capture, one status line per finished command and the progress counters are schedule-level and not decided.",
        "design_ref": "DESIGN.md 5 C20",
    },
    "level_note": "trusted: cbmc 6.11 C++ front end, stubs/std/string, callee contract stubs printf/fwrite/fflush/ioctl/ElideMiddleInPlace (stdout = ghost byte sequence), "
                  "the LinePrinter constructor replaced by its contract (unlocked, caret state arbitrary)",
    "technique": "contract-based verification with CBMC: data-structure invariant/postcondition of LinePrinter over an abstract byte-sequence view, callee contract stubs; bounded op sequences",
}

UNIT = r'''
#include <string>
#include <stddef.h>
#include <string.h>
#include <sys/ioctl.h>
#include <unistd.h>
using namespace std;
bool nondet_bool(); int nondet_int(); unsigned char nondet_uchar();
/* ---- ghost stdout ---- */
#define VF_OUT_CAP 48
static unsigned char vf_out[VF_OUT_CAP];
static size_t vf_out_n = 0;
static bool vf_locked_phase = false;       /* between the completed lock and the start of the unlock */
static int vf_status_prints = 0;           /* status lines printed through printf("%%s...") */
static std::string vf_last_status;
static void vf_emit(unsigned char c) {
  __CPROVER_assert(!vf_locked_phase, "post C20: nothing reaches the terminal while the console is locked");
  __CPROVER_assert(vf_out_n < VF_OUT_CAP, "model capacity: ghost stdout");
  __CPROVER_assume(vf_out_n < VF_OUT_CAP);
  vf_out[vf_out_n++] = c;
}
struct vf_FILE; typedef vf_FILE FILE;
static FILE* stdout = 0;
static size_t vf_fwrite(const void* p, size_t sz, size_t n, FILE* f) {
  (void)f; (void)sz;
  for (size_t i = 0; i < n; i++) vf_emit(((const unsigned char*)p)[i]);      /* command output: byte exact, NUL included */
  return n;
}
static int vf_fflush(FILE* f) { (void)f; return 0; }
/* the four printf forms of line_printer.cc; status lines are kept apart from command output */
static int vf_printf(const char* fmt) { (void)fmt; __CPROVER_assert(!vf_locked_phase, "post C20: nothing reaches the terminal while the console is locked"); return 0; }
static int vf_printf(const char* fmt, const char* s) {
  (void)fmt;
  __CPROVER_assert(!vf_locked_phase, "post C20: nothing reaches the terminal while the console is locked");
  vf_status_prints++; vf_last_status = std::string(s);
  return 0;
}
#define fwrite vf_fwrite
#define fflush vf_fflush
#define printf vf_printf
static int vf_ioctl(int fd, unsigned long req, winsize* w) { (void)fd; (void)req; w->ws_col = (unsigned short)nondet_int(); return nondet_int(); }
#define ioctl vf_ioctl
void ElideMiddleInPlace(std::string& str, size_t max_width) { (void)max_width; if (nondet_bool() && str.size() > 1) str.resize(1); }   /* contract: may shorten */
#define private public
/* ---- verbatim slice of struct LinePrinter from /repo/src/line_printer.h ---- */
%(struct)s
/* ---- end ---- */
#undef private
/* constructor replaced by its contract: unlocked; terminal kind and caret state arbitrary */
LinePrinter::LinePrinter() : have_blank_line_(true), console_locked_(false) { smart_terminal_ = nondet_bool(); supports_color_ = nondet_bool(); }
/* ---- verbatim slices of /repo/src/line_printer.cc ---- */
%(funcs)s
/* ---- end of slices ---- */
extern "C" void harness() {
  LinePrinter* lpp = new LinePrinter();
  LinePrinter& lp = *lpp;
  lp.have_blank_line_ = nondet_bool();
  lp.SetConsoleLocked(true);
  __CPROVER_assert(lp.console_locked_, "post C20: locked");
  vf_locked_phase = true;
  /* ---- expected view, built from the statement ---- */
  unsigned char exp[VF_OUT_CAP]; size_t en = 0;
  bool blank = lp.have_blank_line_;
  std::string pending;                    /* status line that has not been followed by output yet */
  for (int k = 0; k < K; k++) {
    std::string s;
    int len = nondet_int();
    __CPROVER_assume(len >= 0 && len <= SL);
    for (int i = 0; i < SL; i++) if (i < len) s.push_back((char)nondet_uchar());
    if (nondet_bool()) {
      lp.PrintOnNewLine(s);
      for (size_t i = 0; i < pending.size(); i++) exp[en++] = (unsigned char)pending[i];
      if (!pending.empty()) { exp[en++] = '\n'; pending.clear(); }
      if (!blank) exp[en++] = '\n';
      for (size_t i = 0; i < s.size(); i++) exp[en++] = (unsigned char)s[i];
      blank = s.empty() || s[s.size() - 1] == '\n';
    } else {
      for (size_t i = 0; i < s.size(); i++) __CPROVER_assume(s[i] != 0);   /* status lines come from manifest text, which cannot contain NUL (printf("%%s") would stop there) */
      lp.Print(s, nondet_bool() ? LinePrinter::ELIDE : LinePrinter::FULL);
      pending = s;                        /* a later status line replaces an earlier silent one: the only coalescing allowed */
    }
  }
  vf_locked_phase = false;
  size_t mark = vf_out_n;
  int prints_before = vf_status_prints;
  lp.SetConsoleLocked(false);
  __CPROVER_assert(!lp.console_locked_, "post C20: unlocked");
  size_t got = vf_out_n - mark;
  /* the unlock itself goes through PrintOnNewLine(output_buffer_): a separator newline comes first if the caret was not on a blank line at lock time */
  __CPROVER_assert(got >= en, "post C20: nothing that was printed while locked is lost");
  size_t lead = got - en;
  __CPROVER_assert(lead <= 1, "post C20: at most the separator newline is added in front");
  if (lead == 1) __CPROVER_assert(vf_out[mark] == '\n', "post C20: the added byte is the separator newline");
  for (size_t i = 0; i < VF_OUT_CAP; i++)
    if (i < en && lead <= 1 && got >= en) __CPROVER_assert(vf_out[mark + lead + i] == exp[i], "post C20: held output appears in order, byte for byte, each piece once, after its status line");
  __CPROVER_assert((vf_status_prints - prints_before) == (pending.empty() ? 0 : 1), "post C20: a status line still pending is printed exactly once, afterwards");
  if (!pending.empty() && vf_status_prints - prints_before == 1 && !lp.smart_terminal_)
    __CPROVER_assert(vf_last_status == pending, "post C20: the pending status line is printed unchanged (no elision on a dumb terminal)");
  __CPROVER_assert(lp.output_buffer_.empty() && lp.line_buffer_.empty(), "post C20: buffers are empty after the unlock");
#if K * SL > 2
  if (en > 2) __CPROVER_assert(0, "canary: several bytes held back");
#endif
  if (!pending.empty()) __CPROVER_assert(0, "canary: pending status line");
  __CPROVER_assert(0, "canary: end of harness reachable");
}
'''

SIGS = [("Print", r'void\s+LinePrinter::Print\s*\('), ("PrintOrBuffer", r'void\s+LinePrinter::PrintOrBuffer\s*\('),
        ("PrintOnNewLine", r'void\s+LinePrinter::PrintOnNewLine\s*\('), ("SetConsoleLocked", r'void\s+LinePrinter::SetConsoleLocked\s*\(')]


def _build(K, SL, mutant):
    def build(d):
        st = slicer.extract_block("src/line_printer.h", r'struct\s+LinePrinter\s*\{')
        parts = []
        for name, sig in SIGS:
            f = slicer.extract_function("src/line_printer.cc", sig)
            if mutant and mutant.target == name:
                f = mutant(f)
            parts.append(f)
        with open(os.path.join(d, "unit.cc"), "w") as f:
            f.write(UNIT % {"struct": st, "funcs": "\n\n".join(parts)})
        cap = K * (SL + 2) + 6
        steps = [gotocc_cpp(["unit.cc"], defines=["K=%d" % K, "SL=%d" % SL, "VF_STR_CAP=%d" % cap], includes=[os.path.join(VERIF, "stubs", "cstring"), STD, os.path.join(VERIF, "stubs")])]
        rules = [("vf_s_", cap + 3), ("harness.", 50), ("vf_fwrite", cap + 3), ("vf_strlen", cap + 3)]

        def post(dd, av):
            us, _ = unwindset_from_loops(dd, "a.gb", rules)
            return av + ["--unwindset", us]
        return steps, cbmc_argv(unwind=cap + 3, object_bits=10), post
    return build


BOUNDS = {"quick": [(1, 2), (2, 2), (3, 1)], "thorough": [(1, 3), (2, 2), (3, 2), (4, 1)]}


def jobs(tier, mutant=None):
    js = []
    for K, SL in BOUNDS[tier]:
        js.append(Job("LinePrinter.locked.K%d_len%d" % (K, SL), _build(K, SL, mutant), "bounded", timeout=3000, canaries=3 if K * SL > 2 else 2,
                      bound="lock, %d operations (PrintOnNewLine / Print) with strings of <= %d arbitrary bytes, unlock" % (K, SL),
                      functions=["LinePrinter::Print", "LinePrinter::PrintOrBuffer", "LinePrinter::PrintOnNewLine", "LinePrinter::SetConsoleLocked"], weight=4.0 ** K * SL))
    # started/finished reports of the builder (modular, props/builderunit.py); the Build loop run (B3) is in the thorough tier only (it is C05's quick run)
    js += builderjobs.select(tier, ["B1", "B2"] + (["B3"] if tier == "thorough" else []), r'\bC20\b', mutant)
    return js


def _m(target, old, new):
    f = subst(old, new)
    f.target = target
    return f


MUTANTS = [
    ("buffer_overwritten_not_appended", _m("PrintOrBuffer", "output_buffer_.append(data, size);", "output_buffer_.assign(data, size);")),
    ("status_line_dropped_before_output", _m("PrintOnNewLine", "output_buffer_.append(line_buffer_);\n    output_buffer_.append(1, '\\n');", "")),
    ("unlock_forgets_buffer", _m("SetConsoleLocked", "PrintOnNewLine(output_buffer_);", "")),
    ("print_leaks_while_locked", _m("Print", "if (console_locked_) {\n    line_buffer_ = to_print;\n    line_type_ = type;\n    return;\n  }", "if (console_locked_) {\n    line_buffer_ = to_print;\n    line_type_ = type;\n  }")),
    ("pending_status_not_printed", _m("SetConsoleLocked", "if (!line_buffer_.empty()) {\n      Print(line_buffer_, line_type_);\n    }", "")),
    ("finish_not_reported_on_failure", _m("FinishCommand", "  status_->BuildEdgeFinished(edge, start_time_millis, end_time_millis,\n                             result.status, result.output);\n\n  // The rest of this function only applies to successful commands.\n  if (!result.success()) {", "  if (result.success()) status_->BuildEdgeFinished(edge, start_time_millis, end_time_millis,\n                             result.status, result.output);\n\n  if (!result.success()) {")),
    ("nul_truncates_output", _m("PrintOnNewLine", "PrintOrBuffer(&to_print[0], to_print.size());", "PrintOrBuffer(&to_print[0], strlen(&to_print[0]));")),
]


def replay(job, ob, vals, scratch):
    seq = []
    for lhs, data, binary, fn, line in vals:
        if fn == "harness" and lhs in ("len", "return_value_nondet_bool", "return_value_nondet_uchar"):
            seq.append("%s=%s" % (lhs, data))
    return "ops: " + " ".join(seq[-40:]), None, {"operation_trace": seq[-80:],
                                                  "note": "object-level contract: the counterexample is a sequence of LinePrinter operations and their string bytes"}


def describe(tier):
    return {
        "functions": ["line_printer.cc:LinePrinter::Print", "LinePrinter::PrintOrBuffer", "LinePrinter::PrintOnNewLine", "LinePrinter::SetConsoleLocked", "line_printer.h:struct LinePrinter"],
        "checker_cmd": "goto-cc -std=c++11 unit.cc; cbmc --unwind N --unwinding-assertions + checks",
        "trusted_base": ["cbmc 6.11.0 C++ front end", "stubs/std/string", "callee contract stubs printf (4 forms), fwrite, fflush, ioctl, ElideMiddleInPlace; constructor by contract"],
        "bounds": {t: "(operations, max string length) %s" % BOUNDS[t] for t in BOUNDS},
        "assumptions": ["BOUNDED: %s" % BOUNDS[tier], "stdout is modelled as a byte sequence (fwrite) plus a count/last value of status lines (printf)",
                        "StatusPrinter calls PrintOnNewLine with a command's whole output and Print with its status line (by inspection)"],
        "silent": ["output of a command shown once, contiguously, after its status line (per-command pipes, StatusPrinter::BuildEdgeFinished)",
                   "progress counters never exceed the total; started = finished", "failed command block preceded by outputs, exit code, command line"],
        "explanation": "Postcondition of the lock/unlock protocol of LinePrinter over an abstract byte-sequence view; bounded operation sequences.",
    }
