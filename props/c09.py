"""C09 - deps log: DepsLog::Load / RecordDeps / RecordId / UpdateDeps / GetDeps / OpenForWriteIfNeeded / Close
(sliced from /repo/src/deps_log.cc, real deps_log.h mirrored with L9/L12) against the format reference
specs/depslog_ref.h, over an in-memory file.  Route B (C++), bounded."""
import os
import re
import subprocess

from engine import slicer
from engine.core import Job, VERIF, extract_inputs, array_from, scalar_from
from engine.routeb import gotocc_cpp, CHECKS, STD, unwindset_from_loops, mirrored_string_piece
from engine.selftest import subst

ID = "C09"
USES_CPP = True   # adds the front-end assumption canaries (engine/frontend.py) to every run of this check

MANIFEST = {
    "level_claimed": {
        "category": "other",
        "text": "Contracts of the deps-log reader and writer checked by CBMC on code sliced from deps_log.cc: (H1 decode) for every byte string of "
                "bounded length after a valid header, Load succeeds, keeps exactly a sequence of whole well-formed records (never fewer than the records a "
                "writer can emit, never a malformed one), cuts the rest off, and the in-memory table equals an independent reference reader's; "
                "(H2 encode/decode) what RecordDeps wrote is what a fresh Load + GetDeps returns, last record per output winning; (H3 sessions) after a "
                "torn tail, load-append-reload stays consistent. BOUNDED (tail length, record count, path length) and for a record-size limit scaled "
                "from 512 KiB to 31 bytes. (Recompaction, modular) DepsLog::Recompact / IsDepsEntryLiveFor (real text, the writer side by contract): the record of every output that still has a build statement using deps is "
                "rewritten exactly once with its mtime and dependencies - also a record with an empty list - every other entry is dropped, the log is replaced once and not at all after an error; the compaction threshold is not decided.",
        "design_ref": "DESIGN.md 5 C09",
    },
    "level_note": "trusted: cbmc 6.11 C++ front end, model std::string/std::vector, in-memory stdio model, shadow Node/State (regex conformance), "
                  "specs/depslog_ref.h (oracle), lowerings L9-L13 (L13 scales kMaxRecordSize: NOT meaning-preserving, small-scope argument only)",
    "technique": "contract-based verification with CBMC: assume/assert contract harnesses + callee contract stubs on sliced real code; bounded",
}

SRC = "src/deps_log.cc"
FUNCS = [
    ("dtor", r'DepsLog::~DepsLog\s*\('),
    ("OpenForWrite", r'bool\s+DepsLog::OpenForWrite\s*\('),
    ("RecordDeps4", r'bool\s+DepsLog::RecordDeps\s*\(\s*Node\*\s*node,\s*TimeStamp\s+mtime,\s*int\s+node_count'),
    ("Close", r'void\s+DepsLog::Close\s*\('),
    ("Load", r'LoadStatus\s+DepsLog::Load\s*\('),
    ("GetDeps", r'DepsLog::Deps\*\s+DepsLog::GetDeps\s*\('),
    ("UpdateDeps", r'bool\s+DepsLog::UpdateDeps\s*\('),
    ("RecordId", r'bool\s+DepsLog::RecordId\s*\('),
    ("OpenForWriteIfNeeded", r'bool\s+DepsLog::OpenForWriteIfNeeded\s*\('),
]

SCALED_MAXREC = 31


def mirrored_header():
    h = slicer.read_src("src/deps_log.h")
    # L9: array-new in a mem-initialiser -> vf_new_array<T>(n)
    h, n9 = re.subn(r'nodes\(new\s+Node\*\[node_count\]\)', 'nodes(vf_new_array<Node*>(node_count))', h)
    # L12: remove the two test-only accessors returning const std::vector<...>&
    h, n12 = re.subn(r'^\s*const\s+std::vector<[^>]+>&\s+\w+\(\)\s+const\s*\{[^}]*\}\s*$', '', h, flags=re.M)
    if n9 != 1:
        raise slicer.SliceError("L9 expected to fire once in deps_log.h, fired %d" % n9)
    if n12 != 2:
        raise slicer.SliceError("L12 expected to fire twice in deps_log.h, fired %d" % n12)
    return h, {"L9": n9, "L12": n12}


def check_shadow():
    g = slicer.read_src("src/graph.h")
    s = slicer.read_src("src/state.h")
    for text, rx in [
        (g, r'const\s+std::string&\s+path\(\)\s+const\s*\{\s*return\s+path_;\s*\}'),
        (g, r'int\s+id\(\)\s+const\s*\{\s*return\s+id_;\s*\}'),
        (g, r'void\s+set_id\(int\s+id\)\s*\{\s*id_\s*=\s*id;\s*\}'),
        (g, r'int\s+id_\s*=\s*-1;'),
        (s, r'Node\*\s+GetNode\(StringPiece\s+path,\s*uint64_t\s+slash_bits\);'),
    ]:
        if not re.search(rx, text):
            raise slicer.SliceError("shadow Node/State out of date: /%s/ not found" % rx)


def sliced_unit(mutant=None):
    counts = {}
    statics = slicer.extract_lines(SRC, r'^static const char kFileSignature\[\]', r'^static constexpr size_t kMaxRecordSize[^;]*;')
    # L11: address-taken static const int -> static int
    statics, n11 = re.subn(r'static const int32_t kCurrentVersion = 4;', 'static int32_t kCurrentVersion = 4;', statics)
    # L13: scale the record-size limit (NOT meaning-preserving; stated everywhere)
    statics, n13 = re.subn(r'kMaxRecordSize = \(1 << 19\) - 1;', 'kMaxRecordSize = %d;' % SCALED_MAXREC, statics)
    if n11 != 1 or n13 != 1:
        raise slicer.SliceError("L11/L13 expected to fire once each (fired %d/%d)" % (n11, n13))
    counts.update({"L11": n11, "L13": n13})
    parts = [statics]
    for name, sig in FUNCS:
        f = slicer.extract_function(SRC, sig)
        if mutant and getattr(mutant, "target", None) == name:
            f = mutant(f)
        parts.append(f)
    body = "\n\n".join(parts)
    body, c = slicer.lower(body, ["L10"], must_fire=["L10"])
    counts.update(c)
    # L18: reinterpret_cast<T*>(array) -> reinterpret_cast<T*>(&array[0]) (CBMC's C++ front end does not apply the
    # array-to-pointer conversion to the operand of a cast and produces an invalid pointer; same pointer value in C++)
    body, n18 = re.subn(r'reinterpret_cast<int\*>\(buf\)', 'reinterpret_cast<int*>(&buf[0])', body)
    if n18 != 1:
        raise slicer.SliceError("L18 expected to fire once in DepsLog::Load, fired %d" % n18)
    counts["L18"] = n18
    # L21: `char buf[kMaxRecordSize + 1];` -> `char buf[<literal>];`  CBMC's C++ front end mis-handles a local array whose bound is an
    # expression over a `static const(expr)` variable: writes to it are lost (measured: `buf[0] = 3; assert(buf[0] == 3)` fails).
    body, n21 = re.subn(r'char buf\[kMaxRecordSize \+ 1\];', 'char buf[%d];' % (SCALED_MAXREC + 1), body)
    if n21 != 1:
        raise slicer.SliceError("L21 expected to fire once in DepsLog::Load, fired %d" % n21)
    counts["L21"] = n21
    return body, counts


PRELUDE = r'''
/* generated by props/c09.py */
#include <assert.h>
#include <stdint.h>
#include <stdio.h>
#include <string.h>
#include "libc_mem.h"
#include <string>
#include <vector>
/* L9 helper: C++ [expr.new]: a negative array bound throws std::bad_array_new_length; ninja does not catch it */
template <class T> T* vf_new_array(long n) {
  __CPROVER_assert(n >= 0, "allocation size non-negative in new T[n] (else std::bad_array_new_length, uncaught: abort)");
  __CPROVER_assume(n >= 0);
  __CPROVER_assert((size_t)n <= vf_alloc_budget, "resource: new T[n] asks for more elements than the input has bytes");
  __CPROVER_assume((size_t)n <= vf_alloc_budget);
  T* p = new T[n];
  return p;
}
#include "deps_log.h"
#include "graph.h"
#include "metrics.h"
#include "state.h"
#include "util.h"
using namespace std;
/* callee contract stubs (util.cc): effects on the in-memory file */
static int vf_truncate_calls = 0;
bool Truncate(const std::string& path, size_t size, std::string* err) {
  (void)path; (void)err;
  __CPROVER_assert(size <= vf_file_len, "callee precondition: Truncate never extends the file");
  vf_file_len = size;
  vf_truncate_calls++;
  return true;
}
int platformAwareUnlink(const char* filename) { (void)filename; vf_file_exists = 0; vf_file_len = 0; vf_file_unlinked = 1; return 0; }
void SetCloseOnExec(int fd) { (void)fd; }
static const char* vf_strerror(int e) { (void)e; return "E"; }
#define strerror vf_strerror
bool DepsLog::Recompact(const std::string& path, std::string* err) {
  (void)path; (void)err;
  __CPROVER_assert(0, "unit boundary: Recompact is not reached in bounded runs (needs > 1000 records)");
  return false;
}
/* ---- verbatim slices of /repo/src/deps_log.cc (lowerings L10, L11, L13) ---- */
%(slices)s
/* ---- end of slices ---- */
extern "C" {
#include "depslog_ref.h"
}
unsigned char nondet_uchar();
long nondet_long();
int nondet_int();
struct DepsLogTest {
  static size_t nnodes(DepsLog& l) { return l.nodes_.size(); }
  static Node* node(DepsLog& l, size_t i) { return l.nodes_[i]; }
  static size_t ndeps(DepsLog& l) { return l.deps_.size(); }
  static bool needs_recompaction(DepsLog& l) { return l.needs_recompaction_; }
};
extern "C" void vf_write_header() {
  static const unsigned char hdr[16] = {'#',' ','n','i','n','j','a','d','e','p','s','\n', 4, 0, 0, 0};
  for (int i = 0; i < 16; i++) vf_file_data[i] = hdr[i];
  vf_file_len = 16;
  vf_file_exists = 1;
}
/* post: the table held by `log` equals the reference table of vf_file_data[0..vf_file_len) */
extern "C" void vf_check_table(DepsLog* logp, dl_ref* rp) {
  DepsLog& log = *logp;
  dl_ref& r = *rp;
  __CPROVER_assert(DepsLogTest::nnodes(log) == (size_t)r.npaths, "post C09: number of known paths equals the reference reader's");
  __CPROVER_assert(DepsLogTest::ndeps(log) <= (size_t)r.npaths, "post C09: no deps entry for an id that names no path");
  for (int k = 0; k < DL_MAXP; k++) {
    if (k < r.npaths && (size_t)k < DepsLogTest::nnodes(log)) {
      Node* nd = DepsLogTest::node(log, k);
      __CPROVER_assert(nd->id() == k, "post C09: node k carries id k");
      __CPROVER_assert(nd->path().size() == r.plen[k], "post C09: path k has the reference length");
      if (nd->path().size() == r.plen[k])
        for (size_t j = 0; j < r.plen[k]; j++)
          __CPROVER_assert((unsigned char)nd->path()[j] == vf_file_data[r.poff[k] + j], "post C09: path k equals the reference bytes");
      DepsLog::Deps* d = log.GetDeps(nd);
      __CPROVER_assert((d != 0) == (r.has[k] != 0), "post C09: an output has deps iff the reference has a record for it");
      if (d != 0 && r.has[k]) {
        __CPROVER_assert(d->mtime == r.mtime[k], "post C09: mtime is the one most recently recorded");
        __CPROVER_assert(d->node_count == r.nd[k], "post C09: dependency count is the one most recently recorded");
        if (d->node_count == r.nd[k])
          for (int i = 0; i < DL_MAXD; i++)
            if (i < r.nd[k]) {
              int in = r.dep[k][i];
              __CPROVER_assert(in >= 0 && (size_t)in < DepsLogTest::nnodes(log) && d->nodes[i] == DepsLogTest::node(log, in),
                               "post C09: dependency i is the node the most recent record names");
            }
      }
    }
  }
}
'''

H1 = r'''
/* H1 decode: valid header + TAIL arbitrary bytes */
extern "C" void harness() {
  unsigned char orig[16 + TAIL + 1];
  vf_write_header();
#ifdef LAYOUT_N
  /* layout-directed run: the record size words are concrete (so the file layout is), every payload byte is symbolic */
  { static const unsigned lay[LAYOUT_N] = { LAYOUT_WORDS };
    size_t off = 16;
    for (int k = 0; k < LAYOUT_N; k++) {
      unsigned w = lay[k];
      vf_file_data[off] = w & 0xff; vf_file_data[off + 1] = (w >> 8) & 0xff; vf_file_data[off + 2] = (w >> 16) & 0xff; vf_file_data[off + 3] = (w >> 24) & 0xff;
      off += 4;
      unsigned sz = w & 0x7fffffffu;
      for (unsigned i = 0; i < sz; i++) vf_file_data[off + i] = nondet_uchar();
      off += sz;
    }
    __CPROVER_assert(off == 16 + TAIL, "harness: layout fills the tail");
  }
#elif defined(PREFIX_PATH)
  /* one concrete, valid path record "a" (id 0) before the symbolic tail: 08 00 00 00 'a' 00 00 00 ff ff ff ff */
  { static const unsigned char pre[12] = {8, 0, 0, 0, 'a', 0, 0, 0, 0xff, 0xff, 0xff, 0xff};
    for (int i = 0; i < 12; i++) vf_file_data[16 + i] = pre[i]; }
  for (int i = 12; i < TAIL; i++) vf_file_data[16 + i] = nondet_uchar();
#else
  for (int i = 0; i < TAIL; i++) vf_file_data[16 + i] = nondet_uchar();
#endif
  vf_file_len = 16 + TAIL;
  for (int i = 0; i < 16 + TAIL; i++) orig[i] = vf_file_data[i];
  vf_alloc_budget = 16 + TAIL;
  State state;
  DepsLog log;
  std::string err;
  LoadStatus st = log.Load("deps", &state, &err);
  __CPROVER_assert(st == LOAD_SUCCESS, "post C09: loading a damaged log succeeds (recovery is a warning)");
  __CPROVER_assert(!vf_file_unlinked, "post C09: a log with a valid header is not discarded");
  __CPROVER_assert(vf_file_len <= 16 + TAIL && vf_file_len >= 16, "post C09: Load only ever cuts a tail off");
  for (int i = 0; i < 16 + TAIL; i++)
    if ((size_t)i < vf_file_len) __CPROVER_assert(vf_file_data[i] == orig[i], "frame C09: the kept prefix is unchanged");
  dl_ref r;
  depslog_ref(orig, 16 + TAIL, vf_file_len, %(maxrec)d, &r);
  __CPROVER_assert(!r.overflow, "model capacity: reference reader tables");
  __CPROVER_assert(r.boundary_ok, "post C09: what is kept is a sequence of whole well-formed records (torn or malformed tail cut off at a record boundary)");
  __CPROVER_assert(vf_file_len >= r.end_must, "post C09: every complete record before the first malformed one is kept");
  if (r.boundary_ok && !r.overflow) vf_check_table(&log, &r);
  __CPROVER_assert(!DepsLogTest::needs_recompaction(log), "post C09: no recompaction requested for a handful of records");
  __CPROVER_assert(0, "canary: end of harness reachable");
}
'''



H2 = r'''
/* H2 writer side (encode): what RecordDeps/RecordId append is checked against the format reference: every byte written belongs to a
   record a conforming reader MUST accept, and the reference reader decodes the most recently recorded data.  Together with H1
   (the real Load equals the reference reader on every byte string within its bound) this is the encode/decode round trip.
   N1/N2 (dependency counts) are concrete per run so that the file layout is concrete; which candidate each dependency is and the
   mtimes are symbolic.  H3 (TORN = 1..3): session 2 loads a file with a torn record header, appends, and the result is checked. */
/* spec of the encoder, from the format comment in deps_log.h */
extern "C" void vf_expect_path(size_t off, const char* name, int len, int id) {
  int pad = (4 - len %% 4) %% 4;
  __CPROVER_assert(dl_u32(vf_file_data + off) == (unsigned)(len + pad + 4), "post C09 (enc): path record size word = name + padding + checksum, high bit clear");
  for (int i = 0; i < 5; i++) if (i < len) __CPROVER_assert(vf_file_data[off + 4 + i] == (unsigned char)name[i], "post C09 (enc): path record holds the name");
  for (int i = 0; i < 3; i++) if (i < pad) __CPROVER_assert(vf_file_data[off + 4 + len + i] == 0, "post C09 (enc): name padded with NUL to a 4-byte boundary");
  __CPROVER_assert(dl_u32(vf_file_data + off + 4 + len + pad) == ~(unsigned)id, "post C09 (enc): checksum is the complement of the record's index");
}
extern "C" void vf_expect_deps(size_t off, int out_id, long mtime, int n, const int* ids) {
  __CPROVER_assert(dl_u32(vf_file_data + off) == (0x80000000u | (unsigned)(4 * (3 + n))), "post C09 (enc): deps record size word with the high bit set");
  __CPROVER_assert(dl_u32(vf_file_data + off + 4) == (unsigned)out_id, "post C09 (enc): output id");
  __CPROVER_assert(dl_u32(vf_file_data + off + 8) == (unsigned)((unsigned long)mtime & 0xffffffffu), "post C09 (enc): mtime low word");
  __CPROVER_assert(dl_u32(vf_file_data + off + 12) == (unsigned)(((unsigned long)mtime >> 32) & 0xffffffffu), "post C09 (enc): mtime high word");
  for (int i = 0; i < 4; i++) if (i < n) __CPROVER_assert(dl_u32(vf_file_data + off + 16 + 4 * i) == (unsigned)ids[i], "post C09 (enc): input ids in order");
}
static Node* vf_pick(Node** cand, int ncand, int k) { __CPROVER_assume(k >= 0 && k < ncand); return cand[k]; }
extern "C" void harness() {
  std::string err;
  vf_alloc_budget = VF_FILE_CAP;
  static const char* names[4] = {"o", "bb", "ccc", "dddd"};   /* path lengths 1..4: every padding case */
  long m0 = nondet_long(), m1 = nondet_long(), m2 = nondet_long();
  State s1;
  DepsLog w;
#if TORN > 0
  /* H3: the previous session left header + path record "a" + TORN stray bytes of the next record header */
  vf_write_header();
  { static const unsigned char pre[12] = {8, 0, 0, 0, 'a', 0, 0, 0, 0xff, 0xff, 0xff, 0xff};
    for (int i = 0; i < 12; i++) vf_file_data[16 + i] = pre[i]; }
  for (int i = 0; i < TORN; i++) vf_file_data[28 + i] = nondet_uchar();
  vf_file_len = 28 + TORN;
  LoadStatus st = w.Load("deps", &s1, &err);
  __CPROVER_assert(st == LOAD_SUCCESS, "post C09: loading a log with a torn tail succeeds");
  __CPROVER_assert(vf_file_len == 28, "post C09: the torn tail is cut off at the last complete record");
#endif
  Node* out = s1.GetNode(StringPiece("out.o"), 0);
  Node* other = s1.GetNode(StringPiece("x"), 0);
  Node* cand[4];
  for (int i = 0; i < 4; i++) cand[i] = s1.GetNode(StringPiece(names[i]), 0);
  int pick1[3], pick2[3];
  Node* d1[3]; Node* d2[3];
  for (int i = 0; i < 3; i++) {
    pick1[i] = nondet_int(); pick2[i] = nondet_int();
    d1[i] = vf_pick(cand, 4, pick1[i]); d2[i] = vf_pick(cand, 4, pick2[i]);
  }
  __CPROVER_assert(w.OpenForWrite("deps", &err), "post C09: OpenForWrite succeeds");
  /* give every candidate an id first, so that the layout of what follows is concrete */
  __CPROVER_assert(w.RecordDeps(other, m0, 4, cand), "post C09: RecordDeps reports success");
  __CPROVER_assert(w.RecordDeps(out, m1, N1, d1), "post C09: RecordDeps reports success");
  size_t len_after_first = vf_file_len;
  __CPROVER_assert(w.RecordDeps(out, m2, N2, d2), "post C09: RecordDeps reports success");
  size_t len_after_second = vf_file_len;
  bool same = (m1 == m2) && (N1 == N2);
  for (int i = 0; i < N1 && i < N2; i++) if (d1[i] != d2[i]) same = false;
  __CPROVER_assert(!same || len_after_second == len_after_first, "post C09: recording unchanged data appends nothing");
  __CPROVER_assert(same || len_after_second == len_after_first + 4 * (1 + 3 + N2), "post C09: changed data appends exactly one deps record");
  w.Close();
  /* encoder contract: the bytes appended are enc(record) at the (concrete) offsets the format prescribes */
  size_t base = 16;
#if TORN > 0
  base = 28;                       /* header + the path record "a" (id 0) that was already there */
  int id0 = 1;
#else
  int id0 = 0;
#endif
  vf_expect_path(base, "x", 1, id0);
  for (int i = 0; i < 4; i++) vf_expect_path(base + 12 + 12 * i, names[i], i + 1, id0 + 1 + i);
  { int ids[4] = {id0 + 1, id0 + 2, id0 + 3, id0 + 4}; vf_expect_deps(base + 60, id0, m0, 4, ids); }
  vf_expect_path(base + 92, "out.o", 5, id0 + 5);
  { int ids[3]; for (int i = 0; i < 3; i++) ids[i] = d1[i]->id(); vf_expect_deps(base + 108, id0 + 5, m1, N1, ids); }
  if (!same) { int ids[3]; for (int i = 0; i < 3; i++) ids[i] = d2[i]->id(); vf_expect_deps(base + 108 + 16 + 4 * N1, id0 + 5, m2, N2, ids); }
  __CPROVER_assert(vf_file_len == base + 108 + 16 + 4 * N1 + (same ? 0 : 16 + 4 * N2), "post C09: nothing else was written");
  for (int i = 0; i < 4; i++) __CPROVER_assert(cand[i]->id() == id0 + 1 + i, "post C09: ids are dense indices in file order");
  /* the writer's own table */
  DepsLog::Deps* wd = w.GetDeps(out);
  __CPROVER_assert(wd != 0 && wd->mtime == m2 && wd->node_count == N2, "post C09: GetDeps returns the most recently recorded mtime/count");
  if (wd != 0 && wd->node_count == N2)
    for (int i = 0; i < N2; i++) __CPROVER_assert(wd->nodes[i] == d2[i], "post C09: GetDeps returns exactly the most recently recorded dependencies");
  __CPROVER_assert(0, "canary: end of harness reachable");
}
'''


def unwind_rules(T, extra=()):
    R = max(T // 9 + 2, (T - 16) // 4 + 2, 2)
    rules = list(extra) + [
        ("fread.", SCALED_MAXREC + 2), ("fwrite.", SCALED_MAXREC + 2), ("vf_memcmp.", 14), ("vf_memcpy.", 36),
        ("vf_s_copy.", 36), ("vf_s_len.", 36), ("vf_s_eq.", 36), ("vf_s_fill.", 36),
        ("harness.", 16 + T + 3), ("vf_write_header.", 18),
        ("dl_scan.7", R + 2), ("dl_scan.", SCALED_MAXREC),
        ("vf_check_table.1", 36), ("vf_check_table.", 8),
        ("vf_vcopy", 10), ("vf_vfill", 10), ("vf_state_lookup", 8),
    ]
    return R, rules


def _build_h1(T, mutant, prefix=False, layout=None):
    def build(d):
        check_shadow()
        hdr, c1 = mirrored_header()
        with open(os.path.join(d, "deps_log.h"), "w") as f:
            f.write(hdr)
        with open(os.path.join(d, "string_piece.h"), "w") as f:
            f.write(mirrored_string_piece())
        body, c2 = sliced_unit(mutant)
        with open(os.path.join(d, "unit.cc"), "w") as f:
            f.write(PRELUDE % {"slices": body} + H1 % {"maxrec": SCALED_MAXREC})
        cap = 16 + T + 4
        src = os.path.join(slicer.REPO, "src")
        steps = [gotocc_cpp(["unit.cc"], defines=["TAIL=%d" % T, "VF_FILE_CAP=%d" % cap, "VF_STR_CAP=%d" % 34, "VF_VEC_CAP=%d" % 8,
                                                 "VF_STATE_CAP=6", "DL_MAXP=6", "DL_MAXD=6"] + (["PREFIX_PATH"] if prefix else []) +
                            (["LAYOUT_N=%d" % len(layout), "LAYOUT_WORDS=%s" % ",".join("%uu" % ((0x80000000 if dd else 0) | sz) for dd, sz in layout)] if layout else []),
                            includes=[d, os.path.join(VERIF, "stubs", "cstdio"), os.path.join(VERIF, "stubs", "ninja_depslog"), STD,
                                      os.path.join(VERIF, "stubs"), os.path.join(VERIF, "specs"), src])]
        R, rules = unwind_rules(T)
        if layout:
            R = max(len(layout) + 2, max(sz for _dd, sz in layout) // 4 + 1)
            rules = [("dl_scan.7", len(layout) + 3)] + rules
        argv = ["cbmc", "a.gb"] + CHECKS + ["--unwind", str(R), "--unwinding-assertions", "--object-bits", "12"]

        def post(dd, av):
            us, unnamed = unwindset_from_loops(dd, "a.gb", rules)
            build.unnamed = unnamed
            return av + ["--unwindset", us]
        return steps, argv, post
    return build


def _build_h2(n1, n2, cut, mutant):
    def build(d):
        check_shadow()
        hdr, c1 = mirrored_header()
        with open(os.path.join(d, "deps_log.h"), "w") as f:
            f.write(hdr)
        with open(os.path.join(d, "string_piece.h"), "w") as f:
            f.write(mirrored_string_piece())
        body, c2 = sliced_unit(mutant)
        with open(os.path.join(d, "unit.cc"), "w") as f:
            f.write(PRELUDE % {"slices": body} + H2 % {"maxrec": SCALED_MAXREC})
        cap = 176
        src = os.path.join(slicer.REPO, "src")
        steps = [gotocc_cpp(["unit.cc"], defines=["N1=%d" % n1, "N2=%d" % n2, "TORN=%d" % max(cut, 0), "VF_FILE_CAP=%d" % cap, "VF_STR_CAP=34",
                                                 "VF_VEC_CAP=10", "VF_STATE_CAP=9", "DL_MAXP=9", "DL_MAXD=5"],
                            includes=[d, os.path.join(VERIF, "stubs", "cstdio"), os.path.join(VERIF, "stubs", "ninja_depslog"), STD,
                                      os.path.join(VERIF, "stubs"), os.path.join(VERIF, "specs"), src])]
        rules = [("fread.", SCALED_MAXREC + 2), ("fwrite.", SCALED_MAXREC + 2), ("vf_memcmp.", 14), ("vf_s_copy.", 36), ("vf_s_len.", 36),
                 ("vf_s_eq.", 36), ("vf_s_fill.", 36), ("harness.", cap + 2), ("dl_scan.7", 14), ("dl_scan.", SCALED_MAXREC),
                 ("vf_check_table.1", 36), ("vf_check_table.", 11), ("vf_vcopy", 12), ("vf_vfill", 12), ("vf_state_lookup", 11), ("vf_strlen", 8), ("vf_expect", 6), ("vf_write_header.", 18)]
        argv = ["cbmc", "a.gb"] + CHECKS + ["--unwind", "12", "--unwinding-assertions", "--object-bits", "12",
                                             "--max-field-sensitivity-array-size", "256"]

        def post(dd, av):
            us, unnamed = unwindset_from_loops(dd, "a.gb", rules)
            return av + ["--unwindset", us]
        return steps, argv, post
    return build


H2_SHAPES = {"quick": [(1, 1), (2, 2), (0, 1)], "thorough": [(a, b) for a in range(0, 4) for b in range(0, 4)]}
H3_CUTS = {"quick": [], "thorough": [3]}
H1P_BOUNDS = {"quick": [], "thorough": [24]}
_P, _D = False, True
LAYOUTS = {
    "quick": [[(_P, 8), (_D, 12)], [(_P, 8), (_D, 13)], [(_P, 5), (_P, 8)], [(_P, 8), (_D, 8)], [(_P, 8), (_P, 8), (_D, 16)]],
    "thorough": [[(_P, a), (_D, b)] for a in (5, 6, 7, 8, 12) for b in (8, 12, 13, 16, 20)] +
                [[(_P, a), (_P, b)] for a in (5, 8) for b in (5, 6, 8, 9)] +
                [[(_P, 8), (_P, 8), (_D, b)] for b in (12, 16, 20)] + [[(_P, 8), (_D, 12), (_D, 16)], [(_P, 8), (_D, 16), (_P, 8)]],
}

H1_BOUNDS = {"quick": [0, 1, 4, 8], "thorough": [0, 1, 2, 3, 4, 5, 8, 9, 12, 16, 20]}


def jobs(tier, mutant=None):
    js = []
    for T in H1_BOUNDS[tier]:
        j = Job("depslog.load.T%d" % T, _build_h1(T, mutant), "bounded", timeout=3400, mem_gb=16,
                bound="valid header + every tail of %d bytes; record-size limit scaled to %d" % (T, SCALED_MAXREC),
                functions=["DepsLog::Load", "DepsLog::UpdateDeps", "DepsLog::GetDeps", "DepsLog::Deps::Deps"], weight=3.0 ** (T / 4.0))
        j.T = T
        js.append(j)
    for lay in LAYOUTS[tier]:
        T = sum(4 + sz for _dd, sz in lay)
        name = "_".join(("D%d" if dd else "P%d") % sz for dd, sz in lay)
        j = Job("depslog.load.layout.%s" % name, _build_h1(T, mutant, layout=lay), "bounded", timeout=3400, mem_gb=16,
                bound="valid header + records with the concrete size words %s (P = path, D = deps), every payload byte symbolic" % name,
                functions=["DepsLog::Load", "DepsLog::UpdateDeps", "DepsLog::GetDeps", "DepsLog::Deps::Deps"], weight=1.5 * len(lay) + T / 10.0)
        j.T = T
        j.layout = lay
        js.append(j)
    for T in H1P_BOUNDS[tier]:
        j = Job("depslog.load.prefix_path.T%d" % T, _build_h1(T, mutant, prefix=True), "bounded", timeout=3400, mem_gb=16,
                bound="valid header + one concrete path record + every tail of %d bytes" % (T - 12),
                functions=["DepsLog::Load"], weight=3.0 ** ((T - 8) / 4.0))
        j.T = T
        js.append(j)
    for n1, n2 in H2_SHAPES[tier]:
        js.append(Job("depslog.roundtrip.n%d_n%d" % (n1, n2), _build_h2(n1, n2, -1, mutant), "bounded", timeout=3400, mem_gb=16,
                      bound="writer: RecordDeps(x,4 deps) + RecordDeps(out,%d deps) + RecordDeps(out,%d deps), Close; file checked against the format reference; dependency choice and mtimes symbolic, 6 fixed path names (lengths 1-5)" % (n1, n2),
                      functions=["DepsLog::RecordDeps", "DepsLog::RecordId", "DepsLog::OpenForWrite", "DepsLog::OpenForWriteIfNeeded", "DepsLog::Close", "DepsLog::GetDeps", "DepsLog::UpdateDeps"],
                      weight=20 + n1 + n2))
    for cut in H3_CUTS[tier]:
        js.append(Job("depslog.sessions.cut%d" % cut, _build_h2(2, 1, cut, mutant), "bounded", timeout=3400, mem_gb=16,
                      bound="session after a torn write: header + path record + %d arbitrary stray bytes; Load, then append 3 deps records, Close; file checked against the format reference" % cut,
                      functions=["DepsLog::Load", "DepsLog::RecordDeps", "DepsLog::RecordId", "DepsLog::OpenForWrite", "DepsLog::Close"], weight=25))
    from props import depsrecompact
    js.append(depsrecompact.job(mutant))
    return js


NATIVE_H1 = r'''
#include "deps_log.h"
#include "graph.h"
#include "state.h"
#include <stdio.h>
#include <string.h>
#include <string>
#include <vector>
#include <unistd.h>
#define DL_MAXP 64
#define DL_MAXD 64
extern "C" {
#include "depslog_ref.h"
}
// argv[1]: hex of the bytes after the 16-byte header.  Writes ./deps, runs the real DepsLog::Load,
// compares the outcome with the reference reader.  exit 0 = contract holds, 1 = violated, other = crash.
int main(int argc, char** argv) {
  std::string tail;
  for (const char* p = argv[1]; p[0] && p[1]; p += 2) { unsigned v; sscanf(p, "%2x", &v); tail.push_back((char)v); }
  std::string file("# ninjadeps\n", 12);
  file += std::string("\4\0\0\0", 4);
  file += tail;
  FILE* f = fopen("deps", "wb"); fwrite(file.data(), 1, file.size(), f); fclose(f);
  State state; DepsLog log; std::string err;
  LoadStatus st = log.Load("deps", &state, &err);
  f = fopen("deps", "rb"); long after = -1; if (f) { fseek(f, 0, SEEK_END); after = ftell(f); fclose(f); }
  dl_ref r; memset(&r, 0, sizeof r);
  depslog_ref((const unsigned char*)file.data(), file.size(), after < 0 ? 0 : (size_t)after, 524287, &r);
  int bad = 0;
  if (st != LOAD_SUCCESS) bad |= 1;
  if (after < 16 || (size_t)after > file.size()) bad |= 2;
  if (!r.boundary_ok) bad |= 4;
  if (after >= 0 && (size_t)after < r.end_must) bad |= 8;
  if (r.boundary_ok) {
    if (log.nodes().size() != (size_t)r.npaths) bad |= 16;
    if (log.deps().size() > (size_t)r.npaths) bad |= 32;
    for (int k = 0; k < r.npaths && (size_t)k < log.nodes().size(); k++) {
      Node* nd = log.nodes()[k];
      if (nd->id() != k || nd->path() != std::string(file.data() + r.poff[k], r.plen[k])) bad |= 64;
      DepsLog::Deps* d = log.GetDeps(nd);
      if ((d != 0) != (r.has[k] != 0)) bad |= 128;
      else if (d) {
        if (d->mtime != r.mtime[k] || d->node_count != r.nd[k]) bad |= 256;
        else for (int i = 0; i < r.nd[k]; i++) if (d->nodes[i] != log.nodes()[r.dep[k][i]]) bad |= 512;
      }
    }
  }
  printf("load_status=%d err='%s' size_before=%zu size_after=%ld ref_end_must=%zu ref_boundary_ok=%d paths=%zu violated_mask=%d\n",
         (int)st, err.c_str(), file.size(), after, r.end_must, r.boundary_ok, log.nodes().size(), bad);
  return bad ? 1 : 0;
}
'''


def _m(target, old, new):
    f = subst(old, new)
    f.target = target
    return f


MUTANTS = [
    ("recompact_drops_empty_lists", _m("Recompact", "    if (!deps) continue;  // If nodes_[old_id] is a leaf, it has no deps.", "    if (!deps || deps->node_count == 0) continue;")),
    ("recompact_keeps_dead_entries", _m("IsDepsEntryLiveFor", "return node->in_edge() && !node->in_edge()->GetBinding(\"deps\").empty();", "return node->in_edge() != NULL;")),
    ("load_alignment_check_dropped", _m("Load", "if ((size % 4) != 0 || size < 12) {", "if (size < 12) {")),
    ("load_checksum_ignored", _m("Load", "if (id != expected_id || node->id() >= 0) {", "if (node->id() >= 0) {")),
    ("load_offset_misses_header", _m("Load", "offset += size + sizeof(size);", "offset += size;")),
    ("load_short_deps_record", _m("Load", "if ((size % 4) != 0 || size < 12) {", "if ((size % 4) != 0) {")),
    ("load_partial_header_kept", _m("Load", "else if (ftell(f) != offset)", "else if (false)")),
    ("writer_padding", _m("RecordId", "int padding = (4 - path_size % 4) % 4;", "int padding = (4 - path_size % 4);")),
    ("writer_checksum", _m("RecordId", "unsigned checksum = ~(unsigned)id;", "unsigned checksum = ~(unsigned)id + 1;")),
    ("writer_mtime_high_word", _m("RecordDeps4", "(mtime >> 32) & 0xffffffff", "(mtime >> 31) & 0xffffffff")),
    ("writer_unchanged_test_first_dep_only", _m("RecordDeps4", "for (int i = 0; i < node_count; ++i) {\n        if (deps->nodes[i] != nodes[i]) {", "for (int i = 0; i < node_count && i < 1; ++i) {\n        if (deps->nodes[i] != nodes[i]) {")),
    ("update_deps_keeps_old", _m("UpdateDeps", "deps_[out_id] = deps;", "if (!delete_old) deps_[out_id] = deps;")),
]


def replay(job, ob, vals, scratch):
    from engine import native
    T = getattr(job, "T", None)
    if T is None:
        return None, None, {"note": "session harness: see trace_tail"}
    got = extract_inputs(vals, ("vf_file_data", "orig"))
    data = array_from(got, "orig", 16 + T)
    # orig is copied from vf_file_data after the symbolic fill; fall back on vf_file_data
    fd = array_from(got, "vf_file_data", 16 + T)
    tail = [data[16 + i] or fd[16 + i] for i in range(T)]
    hexs = "".join("%02x" % b for b in tail)
    exe, d = native.build_driver(scratch, "c09", NATIVE_H1, extra_includes=[os.path.join(VERIF, "specs")])
    rd = os.path.join(d, "run_%s" % (hexs or "empty"))
    os.makedirs(rd, exist_ok=True)
    p = subprocess.run([exe, hexs if hexs else "00"[:0] or "''"], cwd=rd, capture_output=True, timeout=120)
    out = (p.stdout + p.stderr).decode("utf-8", "replace")
    reproduced = p.returncode != 0
    return "tail=%s" % hexs, reproduced, {"input_hex_tail_after_header": hexs, "native_rc": p.returncode,
                                          "native_output": out[-3000:],
                                          "note": "file = 16-byte valid header + tail; real DepsLog::Load (ASan/UBSan build of /repo/src) vs specs/depslog_ref.h"}


def describe(tier):
    return {
        "functions": ["deps_log.cc:DepsLog::Load", "DepsLog::RecordDeps(4-arg)", "DepsLog::RecordId", "DepsLog::UpdateDeps", "DepsLog::GetDeps",
                      "DepsLog::OpenForWriteIfNeeded", "DepsLog::Close", "deps_log.h:DepsLog::Deps::Deps"],
        "checker_cmd": "goto-cc -std=c++11 unit.cc (slices of deps_log.cc + mirrored deps_log.h + shadows); cbmc --unwind R --unwindset <helpers> --unwinding-assertions --object-bits 12",
        "trusted_base": ["cbmc 6.11.0 C++ front end + SAT", "stubs/std/{string,vector} models", "stubs/cstdio/stdio.h in-memory file model",
                         "shadow Node/State (regex conformance)", "callee contract stubs Truncate/platformAwareUnlink/SetCloseOnExec",
                         "specs/depslog_ref.h (oracle)", "lowerings L9, L10, L11, L12, L18 (meaning-preserving) and L13 (scaling, not meaning-preserving)"],
        "bounds": {t: "H1 tails of %s bytes" % H1_BOUNDS[t] for t in H1_BOUNDS},
        "assumptions": [
            "BOUNDED: tails / record counts / path lengths as listed; longer logs are not decided",
            "SCALED: kMaxRecordSize is 31 instead of 524287 in the verified text (L13); the constant occurs only as the buffer length and in "
            "size > kMaxRecordSize comparisons - transfer to the real limit is a small-scope argument, not proved",
            "State::GetNode is replaced by its contract (same node for equal paths, fresh node otherwise)",
            "Truncate(path, n) is replaced by its contract (file length becomes n)",
            "little-endian 32-bit words (the target ninja runs on here)",
            "recompaction (Recompact, IsDepsEntryLiveFor) has its own modular run against the writer contracts; the Load/RecordDeps runs assert it is not requested for a handful of records",
        ],
        "silent": ["the 1000-record / 3x compaction threshold", "concurrent writers"],
        "explanation": "Contract harnesses on the sliced deps-log reader/writer over an in-memory file; postconditions from the property statement, oracle = "
                       "independent reference reader; bounded and scaled (see assumptions), not a proof.",
    }
