"""C02 (two-run lemma for one statement): RecomputeOutputsDirtyCache (graph.cc) against the record Builder::FinishCommand leaves (C01)."""
from engine.selftest import subst
from props import outdirtyjobs, builderjobs

ID = "C02"
USES_CPP = True

MANIFEST = {
    "level_claimed": {
        "category": "other",
        "text": "One lemma, per statement, bounded in the number of outputs (1-2): (a) the real RecomputeOutputsDirtyCache::all / depfile / Phony and the member template RecomputeOutputDirty<FIRSTRUN> "
                "(graph.cc, instantiated textually) say 'out of date' EXACTLY when the documented rule does - an output missing, older than the most recent input (restat: judged by the recorded "
                "mtime), a recorded mtime older than the most recent input, or, unless the statement is a generator, a changed or unrecorded command line; phony: no inputs, no validations and missing; "
                "(b) in the state a successful run leaves behind - the record Builder::FinishCommand writes (its contract is discharged in C01: start time or later, current command hash), outputs "
                "written at or after the start, inputs untouched since - the statement is NOT out of date. So a statement that was just built is clean for the next scan, for plain, restat, generator "
                "and multi-output statements. NOT decided: the whole-build statement (every statement, depfile/deps-log/dyndep dependencies - see the known finding listed under C10, which also "
                "breaks convergence - validations, pools), 'no work to do' being reported, later runs.",
        "design_ref": "DESIGN.md 5 C02",
    },
    "level_note": "trusted: " + "; ".join(outdirtyjobs.TRUST),
    "technique": "contract-based verification with CBMC: postcondition 'result == documented rule' on the real member functions (template instantiated textually), plus a two-function lemma over the FinishCommand contract; bounded (1-2 outputs)",
}


def jobs(tier, mutant=None):
    return outdirtyjobs.select(tier, ["O1", "O2", "O3"], r'\bC02\b', mutant)


def _m(target, old, new):
    f = subst(old, new)
    f.target = target
    return f


MUTANTS = [
    ("restat_record_not_used", _m("RecomputeOutputDirty", "if (isRestat_ && buildLog_ && entry.LookupByOutput(buildLog_, output)) {", "if (false) {")),
    ("generator_command_change_rebuilds", _m("RecomputeOutputDirty", "IF_FIRSTRUN (!generator_ && commandHash_() != entry->command_hash) {", "IF_FIRSTRUN (commandHash_() != entry->command_hash) {")),
    ("recorded_mtime_not_compared", _m("RecomputeOutputDirty", "if (most_recent_input && entry->mtime < most_recent_input->mtime()) {", "if (false) {")),
    ("equal_mtime_is_dirty", _m("RecomputeOutputDirty", "output->mtime() < most_recent_input->mtime()) {", "output->mtime() <= most_recent_input->mtime()) {")),
    ("only_first_output_checked", _m("all", "for (std::size_t i = 0; i != edge_->outputs_.size(); ++i) {", "for (std::size_t i = 0; i != 1; ++i) {")),
    ("unlogged_output_is_clean", _m("RecomputeOutputDirty", "IF_FIRSTRUN (!entry.is_valid() && !generator_) {", "IF_FIRSTRUN (false) {")),
    ("phony_with_inputs_dirty", _m("Phony", "if (edge_->inputs_.empty() && edge_->validations_.empty() &&\n      !output->exists()) {", "if (edge_->validations_.empty() &&\n      !output->exists()) {")),
]


def replay(job, ob, vals, scratch):
    keep = [(lhs, data) for lhs, data, _b, fn, _l in vals if fn == "harness" and lhs and not lhs.startswith("return_value")]
    return "state: " + " ".join("%s=%s" % kv for kv in keep[-30:]), None, {
        "counterexample_state": ["%s=%s" % kv for kv in keep[-80:]],
        "note": "the counterexample is the state of one statement (existence, mtimes, log record, flags); replay natively with a two-line manifest and touch -d"}


def describe(tier):
    return {
        "functions": ["graph.cc:RecomputeOutputsDirtyCache::all", "::depfile", "::Phony", "::RecomputeOutputDirty<true>", "::RecomputeOutputDirty<false>", "::CachedLogEntry::LookupByOutput"],
        "checker_cmd": "goto-cc -std=c++11 -DNDEBUG unit.cc (slices + shadow class declarations + harness); cbmc a.gb --unwind 20 --unwinding-assertions + checks",
        "trusted_base": outdirtyjobs.TRUST,
        "bounds": {t: "statements with 1-2 outputs; every flag, mtime, hash and record symbolic (loop bound = number of outputs)" for t in ("quick", "thorough")},
        "assumptions": outdirtyjobs.ASSUME + ["lemma (b) ASSUMES the FinishCommand contract of C01 and that no input was edited after the command started (the property's own premise)"],
        "silent": ["convergence of a whole build (all statements, discovered dependencies, dyndep, validations, pools)", "'no work to do' is reported", "every later run"],
        "explanation": "Strongest postcondition of the per-output dirtiness rule (result == documented rule) and the two-run lemma for one statement.",
    }
