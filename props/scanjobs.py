"""Job catalogue of the dirty-scan unit (props/scanunit.py + props/harness/scan_*.cc)."""
import re

from props import scanunit

REAL = ["RecomputeNodeDirty", "VerifyDAG"]


def catalogue(tier, mutant=None):
    J = {}
    J["S1"] = scanunit.job("DependencyScan.RecomputeNodeDirty.contract", "scan_nodedirty.cc", REAL, [], mutant, rec=["RecomputeNodeDirty"], canaries=4,
                           bound="one statement with 2 outputs, a declared input range, an optional dyndep node and validation; every callee verdict (inputs dirty/unready, outputs dirty, "
                                 "deps loaded / missing / error, stat answers) symbolic; first visit or re-visit")
    for j in (0, 1, 2):
        J["S2.J%d" % j] = scanunit.job("DependencyScan.VerifyDAG.contract.J%d" % j, "scan_verifydag.cc", REAL, ["J=%d" % j], mutant, rec=["RecomputeNodeDirty"], canaries=2,
                                       bound="a visit stack of 3 statements; the node reached belongs to stack entry %d (itself or another output of its statement)" % j)
    for nin in (2, 3):
        J["S3.N%d" % nin] = scanunit.job("DependencyScan.RecomputeEdgesInputsDirty.contract.in%d" % nin, "scan_inputs.cc", ["RecomputeEdgesInputsDirty"], ["NIN=%d" % nin], mutant, canaries=3,
                                         bound="a statement with %d inputs, any explicit/implicit/order-only split; dirty flags, mtimes, producer readiness, visit results and the previous most-recent input symbolic" % nin)
    return J


def select(tier, keys, tag, mutant=None):
    J = catalogue(tier, mutant)
    out = []
    rx = re.compile(tag)
    for k, j in J.items():
        if any(k == s or k.startswith(s + ".") for s in keys):
            j.clause_filter = rx
            out.append(j)
    return out


TRUST = scanunit.TRUST
ASSUME = ["MODULAR: RecomputeNodeDirty is checked against the CONTRACTS of RecomputeEdgesInputsDirty (from its doc comment), RecomputeOutputsDirtyCache::all/depfile, ImplicitDepLoader::LoadDeps/LoadDepsTry, "
          "Node::Stat and LoadDyndeps; of these RecomputeEdgesInputsDirty has its own run (S3) and RecomputeOutputsDirtyCache is under contract in C02; the loaders are not",
          "the recursive visit of the dyndep node is replaced by the function's own contract (R1); the leaf case (no in-edge) is covered by inspection only",
          "VerifyDAG precondition: the visit stack satisfies the DFS invariant (each entry is an input of the previous entry's statement) - established by RecomputeNodeDirty/RecomputeEdgesInputsDirty, asserted at the stub"]
