"""C19 (JSON clause) - EncodeJSONString output is a valid JSON string body that decodes to the input.

Unit: the whole real /repo/src/json.cc (Route B: no slicing, no lowering; model <string>).
"""
import os
import subprocess

from engine import slicer
from engine.core import Job, VERIF, extract_inputs, array_from
from engine.routeb import gotocc_cpp, cbmc_argv, STD
from engine.selftest import subst

ID = "C19"
USES_CPP = True   # adds the front-end assumption canaries (engine/frontend.py) to every run of this check

MANIFEST = {
    "level_claimed": {
        "category": "other",
        "text": "JSON clause only ('compdb output is valid JSON whatever bytes the commands contain'): contract of EncodeJSONString "
                "(post: output is a legal RFC 8259 string body and decodes to exactly the input bytes; no out-of-bounds access) checked by CBMC "
                "on the unmodified json.cc for every byte string of each bounded length. BOUNDED in input length, not a proof. The other clauses of C19 "
                "(tools run no command, logs untouched, -n predicts the real run) are whole-program behaviour and are not decided.",
        "design_ref": "DESIGN.md 5 C19",
    },
    "level_note": "trusted: cbmc 6.11 C++ front end, stubs/std/string model, specs/json_dec.h (RFC 8259 decoder, the oracle). Bytes >= 0x80 pass "
                  "through verbatim: JSON validity there needs the command text to be UTF-8 (assumption). quick L<=4, thorough L<=5 (x7 cost per byte: output positions become symbolic).",
    "technique": "contract-based verification: assume/assert contract harness on unmodified json.cc with CBMC, bounded per input length",
}

BOUNDS = {"quick": list(range(0, 5)), "thorough": list(range(0, 6))}

HARNESS = r'''
#include "json.h"
extern "C" {
#include "json_dec.h"
}
unsigned char nondet_uchar();
extern "C" void harness() {
  unsigned char orig[L + 1];
  std::string in;
  for (int i = 0; i < L; i++) { orig[i] = nondet_uchar(); in.push_back((char)orig[i]); }
  std::string out = EncodeJSONString(in);
  /* post (C19): the body is legal JSON and decodes to the input */
  unsigned char dec[L + 1];
  long dl = json_body_decode((const unsigned char*)out.data(), out.size(), dec, L);
  __CPROVER_assert(dl >= 0, "post C19: output is a legal RFC 8259 string body (no raw quote, backslash or control byte; legal escapes only)");
  __CPROVER_assert(dl == L, "post C19: decoded length equals input length");
  for (int i = 0; i < L; i++)
    if (dl == L) __CPROVER_assert(dec[i] == orig[i], "post C19: decoding the output returns the input bytes");
  __CPROVER_assert(out.size() >= (size_t)L && out.size() <= 6 * (size_t)L, "post C19: output length within [n, 6n]");
  __CPROVER_assert(0, "canary: end of harness reachable");
}
'''


def _build(L, mutant):
    def build(d):
        src = slicer.read_src("src/json.cc")
        if mutant:
            src = mutant(src)
        with open(os.path.join(d, "json.cc"), "w") as f:
            f.write(src)
        with open(os.path.join(d, "harness.cc"), "w") as f:
            f.write(HARNESS)
        cap = 6 * L + 8
        steps = [gotocc_cpp(["json.cc", "harness.cc"], defines=["L=%d" % L, "VF_STR_CAP=%d" % cap],
                            includes=[STD, os.path.join(slicer.REPO, "src"), os.path.join(VERIF, "specs")])]
        return steps, cbmc_argv(unwind=cap + 2)
    return build


def jobs(tier, mutant=None):
    js = []
    for L in BOUNDS[tier]:
        j = Job("json.encode.L%d" % L, _build(L, mutant), "bounded", timeout=1800, mem_gb=8,
                bound="every byte string of length %d" % L, functions=["EncodeJSONString"], weight=2.0 ** L)
        j.L = L
        js.append(j)
    return js


MUTANTS = [
    ("quote_not_escaped", subst('else if (c == \'\\"\')\n      out += "\\\\\\"";', 'else if (c == \'\\"\')\n      out += "\\"";')),
    ("control_upper_bound", subst("c < 0x20", "c < 0x1f")),
    ("hex_nibbles_swapped", subst("out += hex_digits[c >> 4];\n      out += hex_digits[c & 0xf];", "out += hex_digits[c & 0xf];\n      out += hex_digits[c >> 4];")),
    ("backslash_single", subst('out += "\\\\\\\\";', 'out += "\\\\";')),
    ("formfeed_as_n", subst('out += "\\\\f";', 'out += "\\\\n";')),
]

NATIVE = r'''
#include "json.h"
#include <stdio.h>
#include <string>
#include <vector>
extern "C" {
#include "json_dec.h"
}
int main(int argc, char** argv) {
  std::string in;
  for (const char* p = argv[1]; p[0] && p[1]; p += 2) { unsigned v; sscanf(p, "%2x", &v); in.push_back((char)v); }
  std::string out = EncodeJSONString(in);
  std::vector<unsigned char> dec(in.size() + 8);
  long dl = json_body_decode((const unsigned char*)out.data(), out.size(), dec.data(), in.size());
  bool ok = dl == (long)in.size() && std::string((char*)dec.data(), dl < 0 ? 0 : dl) == in;
  printf("encoded=");
  for (unsigned char c : out) printf("%02x", c);
  printf(" decode_len=%ld ok=%d\n", dl, (int)ok);
  return ok ? 0 : 1;
}
'''


def replay(job, ob, vals, scratch):
    L = job.L
    got = extract_inputs(vals, ("orig",))
    data = array_from(got, "orig", L)
    hexs = "".join("%02x" % b for b in data)
    d = os.path.join(scratch, "native_c19")
    os.makedirs(d, exist_ok=True)
    with open(os.path.join(d, "replay.cc"), "w") as f:
        f.write(NATIVE)
    src = os.path.join(slicer.REPO, "src")
    subprocess.run(["g++", "-std=c++17", "-O1", "-g", "-fsanitize=address,undefined", "-I", src, "-I", os.path.join(VERIF, "specs"),
                    "replay.cc", src + "/json.cc", "-o", "replay"], cwd=d, check=True, capture_output=True, timeout=300)
    p = subprocess.run([os.path.join(d, "replay"), hexs if hexs else "''"], capture_output=True, timeout=60)
    out = (p.stdout + p.stderr).decode("utf-8", "replace")
    return "input=%s" % hexs, p.returncode != 0, {"input_hex": hexs, "input_repr": repr(bytes(data)), "native_rc": p.returncode,
                                                 "native_output": out[-2000:]}


def describe(tier):
    return {
        "functions": ["json.cc:EncodeJSONString (whole unmodified file)"],
        "checker_cmd": "goto-cc -std=c++11 -DL=<n> -I stubs/std -I /repo/src json.cc harness.cc; cbmc --unwind 6L+10 --unwinding-assertions + standard checks",
        "trusted_base": ["cbmc 6.11.0 C++ front end + SAT", "stubs/std/string (model)", "specs/json_dec.h (oracle: RFC 8259 string body)"],
        "bounds": {t: "all byte strings of every length in %s" % BOUNDS[t] for t in BOUNDS},
        "assumptions": [
            "BOUNDED: decided for input lengths %s only; the encoder treats bytes independently, which is not machine-checked" % BOUNDS[tier],
            "bytes >= 0x80 are passed through; valid JSON there requires the command text to be UTF-8 (not checked)",
            "char is signed on this target (the 0x0 <= c test is part of what is checked)",
            "PrintJSONString and the compdb printer around it (ninja.cc) are covered by inspection only",
        ],
        "silent": ["tools execute no command and leave logs unchanged", "-n / -t commands predict the real run"],
        "explanation": "Contract harness on the unmodified json.cc: for every input of each bounded length the encoded body is legal RFC 8259 and "
                       "decodes to the input; bounded stand-in, not a proof.",
    }
