"""C08 (line structure of .ninja_log): struct LineReader (constructor + ReadLine) and the field-splitting statements of
BuildLog::Load, sliced from /repo/src/build_log.cc, verified per call against callee contracts (memchr, memmove, fread as contract
stubs over ghost state) - loop-free, hence complete for every buffer state and every fread outcome."""
import os
import re

from engine import slicer
from engine.core import Job, VERIF, extract_inputs
from engine.routeb import gotocc_cpp, cbmc_argv, STD

ID = "C08"
USES_CPP = True   # adds the front-end assumption canaries (engine/frontend.py) to every run of this check

MANIFEST = {
    "level_claimed": {
        "category": "other",
        "text": "Line-structure clauses only ('whatever prefix reached the disk, loading yields exactly the completely written records; a damaged line can "
                "at worst be skipped'): (1) contract of LineReader::ReadLine, sliced verbatim: for EVERY well-formed reader state and every outcome of "
                "fread, all accesses stay inside the 256 KiB buffer, the reader stays well formed, a returned line ends at the FIRST newline after its "
                "start (no newline inside it), and an unterminated tail is reported with a NULL end (which Load skips); (2) contract of the field-splitting "
                "statements of BuildLog::Load, sliced verbatim: for every line [start,end] with a newline at end, all reads/writes stay inside the line, "
                "a record is produced only if four tabs were found before the newline, and then the output name is exactly the fourth field. (1) is loop-free given "
                "the callee contracts and holds for all inputs (proof); (2) is checked for every line inside a 48-byte window (bounded: the string model's copy loop). (3) writer side (real text of BuildLog::RecordCommand and BuildLog::Restat against contract stubs of WriteEntry, stdio, Stat and ReplaceContent; a log of three records): "
                "RecordCommand gives every output of the command - explicit and implicit - the record just written (last record wins, existing records updated in place, others untouched) and appends and flushes one line per output; "
                "`-t restat` of all or of a subset changes only the mtime of the selected records, rewrites the record of EVERY output exactly once into a temporary file with the version header and replaces the log once, "
                "and never on an error. the entry-update statements of BuildLog::Load (sliced by line range) make the LAST line per output win whatever its mtime, and keep one record per output. NOT decided: Recompact (attempted: the solver did not finish), version handling, numeric round trip of a record line.",
        "design_ref": "DESIGN.md 5 C08",
    },
    "level_note": "trusted: cbmc 6.11 C++ front end; callee CONTRACT STUBS for memchr (first occurrence, via ghost facts), memmove, memset, fread (any short read), "
                  "atoi/strtoll/strtoull (read a NUL-terminated string); the statements of BuildLog::Load are sliced by line range and wrapped in do{...}while(0) "
                  "('continue' = skip the line); entries_ map update, sscanf of the version line and Recompact are outside the unit",
    "technique": "contract-based deductive verification with CBMC: per-call contracts on sliced real code, callees replaced by their contracts (ghost state), loop-free => complete",
}

READER_UNIT = r'''
#include <stddef.h>
#include <stdio.h>
/* ---- callee contracts over ghost state (the real ReadLine never reads the buffer itself, only through memchr) ---- */
static char* vf_base; static size_t vf_size;        /* the reader's buffer */
static char* vf_nl;                                   /* a position known to hold '\n', or NULL */
static char* vf_nonl_lo; static char* vf_nonl_hi;     /* [lo,hi) known to contain no '\n' */
static bool vf_eof_seen = false;
static bool vf_moved = false;
bool nondet_bool(); size_t nondet_size();
static void vf_in_buf(const void* p, size_t n, const char* what) {
  (void)what;
  __CPROVER_assert((const char*)p >= vf_base && (const char*)p + n <= vf_base + vf_size, "callee precondition: the range passed lies inside LineReader::buf_");
}
extern "C" {
void* vf_memchr_c(const void* s, int c, size_t n) {
  vf_in_buf(s, n, "memchr");
  __CPROVER_assert(c == '\n', "harness: LineReader only searches for newline");
  char* b = (char*)s;
  bool known_inside = vf_nl != 0 && b <= vf_nl && vf_nl < b + n;                            /* a newline is already known to be in range */
  if (!known_inside && nondet_bool()) { vf_nl = 0; vf_nonl_lo = b; vf_nonl_hi = b + n; return 0; }          /* not found: none in [s, s+n) */
  size_t k = nondet_size();
  __CPROVER_assume(k < n);
  if (known_inside) __CPROVER_assume(b + k <= vf_nl);                                       /* the first one cannot lie behind a known one */
  vf_nl = b + k; vf_nonl_lo = b; vf_nonl_hi = b + k;                                        /* FIRST occurrence: none in [s, s+k) */
  return b + k;
}
void* vf_memmove_c(void* d, const void* s, size_t n) {
  vf_in_buf(d, n, "memmove dst"); vf_in_buf(s, n, "memmove src");
  vf_moved = true;
  vf_nl = 0; vf_nonl_lo = vf_nonl_hi = vf_base;                                             /* contents moved: forget the facts */
  return d;
}
void* vf_memset_c(void* d, int c, size_t n) { (void)c; if (vf_base != 0) vf_in_buf(d, n, "memset"); return d; }   /* the constructor clears its own buf_ before the harness knows its address */
size_t vf_fread_c(void* p, size_t sz, size_t n, FILE* f) {
  (void)f;
  __CPROVER_assert(sz == 1, "harness: LineReader reads bytes");
  vf_in_buf(p, n, "fread");
  vf_nl = 0; vf_nonl_lo = vf_nonl_hi = vf_base;                                             /* contents overwritten: forget the facts */
  size_t r = nondet_size();
  __CPROVER_assume(r <= n);                                                                  /* any short read, 0 = EOF */
  if (r == 0) vf_eof_seen = true;
  return r;
}
}
#define memchr vf_memchr_c
#define memmove vf_memmove_c
#define memset vf_memset_c
#define fread vf_fread_c
#define private public
/* ---- verbatim slice of /repo/src/build_log.cc ---- */
%(reader)s
/* ---- end of slice ---- */
#undef private
static bool vf_wf(LineReader& r) {
  return r.buf_ <= r.line_start_ && r.line_start_ <= r.buf_end_ && r.buf_end_ <= r.buf_ + sizeof(r.buf_) &&
         (r.line_end_ == 0 || (r.line_start_ <= r.line_end_ && r.line_end_ < r.buf_end_ && vf_nl == r.line_end_));
}
extern "C" void harness() {
  FILE file;
  LineReader* rp = new LineReader(&file);
  LineReader& r = *rp;
  vf_base = r.buf_; vf_size = sizeof(r.buf_);
  __CPROVER_assert(r.buf_end_ == r.buf_ && r.line_start_ == r.buf_ && r.line_end_ == 0, "post C08: constructor yields the empty reader");
  if (nondet_bool()) {
    /* an arbitrary well-formed state reached by earlier calls */
    size_t b = nondet_size(), s = nondet_size();
    __CPROVER_assume(b <= sizeof(r.buf_) && s <= b);
    r.buf_end_ = r.buf_ + b; r.line_start_ = r.buf_ + s;
    if (nondet_bool()) { r.line_end_ = 0; vf_nl = 0; }
    else { size_t e = nondet_size(); __CPROVER_assume(e >= s && e < b); r.line_end_ = r.buf_ + e; vf_nl = r.line_end_; }
    vf_nonl_lo = vf_nonl_hi = r.buf_;
    __CPROVER_assert(vf_wf(r), "harness: assumed state is well formed");
  }
  char* old_ls = r.line_start_; char* old_le = r.line_end_; char* old_be = r.buf_end_;
  char* ls = 0; char* le = 0;
  bool ok = r.ReadLine(&ls, &le);
  if (ok) {
    if (old_le != 0 && old_ls < old_be)
      __CPROVER_assert(ls == old_le + 1 || (vf_moved && ls == r.buf_), "post C08: the next line starts right after the previous line's newline (every record is delivered once, the reader makes progress)");
    __CPROVER_assert(vf_wf(r), "invariant C08: the reader stays well formed (pointers inside buf_, line end is a newline)");
    __CPROVER_assert(ls == r.line_start_ && le == r.line_end_, "post C08: the out-parameters are the reader's line start and end");
    if (le != 0) {
      __CPROVER_assert(vf_nl == le, "post C08: a returned line ends at a newline");
      __CPROVER_assert(vf_nonl_lo <= ls && le <= vf_nonl_hi, "post C08: no newline inside the returned line (it ends at the FIRST newline: records are never merged)");
      if (le + 1 < r.buf_end_) __CPROVER_assert(0, "canary: a line followed by more buffered data");
    } else {
      __CPROVER_assert(vf_nonl_lo <= ls && r.buf_end_ <= vf_nonl_hi, "post C08: a NULL end means the rest of the buffer holds no newline (unterminated tail / over-long line)");
      __CPROVER_assert(0, "canary: unterminated tail reachable");
    }
  } else {
    __CPROVER_assert(vf_eof_seen, "post C08: false only at end of file");
    __CPROVER_assert(0, "canary: EOF reachable");
  }
  __CPROVER_assert(0, "canary: end of harness reachable");
}
'''

SPLIT_UNIT = r'''
#include <stddef.h>
#include <stdint.h>
#include <string>
typedef int64_t TimeStamp;
bool nondet_bool(); size_t nondet_size(); int nondet_int(); long nondet_long();
static char vf_buf[48];
static char* vf_lo; static char* vf_hi;                /* the line: [vf_lo, vf_hi], *vf_hi == newline */
static int vf_tabs = 0;
static char* vf_tab_pos[5];
static void vf_in_line(const void* p, size_t n) {
  __CPROVER_assert((const char*)p >= vf_lo && (const char*)p + n <= vf_hi + 1, "callee precondition: the range passed lies inside the current line");
}
extern "C" {
void* vf_memchr_c(const void* s, int c, size_t n) {
  vf_in_line(s, n);
  __CPROVER_assert(c == '\t', "harness: the splitter only searches for tabs");
  char* b = (char*)s;
  if (nondet_bool()) return 0;
  size_t k = nondet_size();
  __CPROVER_assume(k < n);
  __CPROVER_assume(b[k] == '\t');
  if (vf_tabs < 5) vf_tab_pos[vf_tabs] = b + k;
  vf_tabs++;
  return b + k;
}
/* numeric conversions: contract "reads the NUL-terminated string at s"; the terminator must be inside the line */
static void vf_cstr(const char* s) {
  __CPROVER_assert(s >= vf_lo && s <= vf_hi, "callee precondition: numeric field starts inside the line");
  __CPROVER_assert(vf_tabs >= 1 && vf_tabs <= 4 && s <= vf_tab_pos[vf_tabs - 1] && *vf_tab_pos[vf_tabs - 1] == 0 || (vf_tabs == 4 && *vf_hi == 0),
                   "callee precondition: the numeric field is NUL-terminated inside the line");
}
int vf_atoi(const char* s) { vf_cstr(s); return nondet_int(); }
long long vf_strtoll(const char* s, char** e, int base) { (void)e; (void)base; vf_cstr(s); return nondet_long(); }
unsigned long long vf_strtoull(const char* s, char** e, int base) { (void)e; (void)base; vf_cstr(s); return (unsigned long long)nondet_long(); }
}
#define memchr vf_memchr_c
#define atoi vf_atoi
#define strtoll vf_strtoll
#define strtoull vf_strtoull
static bool vf_record = false;
static char* vf_out_start; static char* vf_out_end;
static void split(char* line_start, char* line_end) {
  do {
/* ---- verbatim statements of BuildLog::Load (/repo/src/build_log.cc), first part ---- */
%(part1)s
/* ---- (the map update between the two parts is outside the unit) ---- */
    vf_record = true; vf_out_start = (char*)output.data(); vf_out_end = line_end;
    struct { int start_time, end_time; TimeStamp mtime; uint64_t command_hash; } vf_entry, *entry = &vf_entry;
/* ---- verbatim statements of BuildLog::Load, second part ---- */
%(part2)s
/* ---- end of slices ---- */
  } while (0);
}
extern "C" void harness() {
  for (size_t i = 0; i < sizeof(vf_buf); i++) vf_buf[i] = (char)nondet_int();     /* static storage is zero-initialised: make it arbitrary */
  size_t a = nondet_size(), b = nondet_size();
  __CPROVER_assume(a <= b && b < sizeof(vf_buf));
  vf_lo = vf_buf + a; vf_hi = vf_buf + b;
  __CPROVER_assume(*vf_hi == '\n');                       /* LineReader's contract: a returned line ends at a newline */
  split(vf_lo, vf_hi);
  __CPROVER_assert(!vf_record || vf_tabs == 4, "post C08: a record is produced only from a line with (at least) four tab-separated fields before the newline");
  __CPROVER_assert(vf_record || vf_tabs < 4, "post C08: a line with four fields yields a record");
  __CPROVER_assert(*vf_hi == '\n', "frame C08: the newline that ends the line is restored");
  if (vf_record) {
    __CPROVER_assert(vf_tab_pos[0] < vf_tab_pos[1] && vf_tab_pos[1] < vf_tab_pos[2] && vf_tab_pos[2] < vf_tab_pos[3] && vf_tab_pos[3] < vf_hi,
                     "post C08: the four separators are found in order, all before the newline");
    __CPROVER_assert(0, "canary: a record can be produced");
  } else __CPROVER_assert(0, "canary: a damaged line is skipped");
  __CPROVER_assert(0, "canary: end of harness reachable");
}
'''


def _build_reader(mutant):
    def build(d):
        blk = slicer.extract_block("src/build_log.cc", r'struct\s+LineReader\s*\{')
        if mutant and mutant.target == "reader":
            blk = mutant(blk)
        blk, c = slicer.lower(blk, ["L1"], must_fire=["L1"])
        with open(os.path.join(d, "unit.cc"), "w") as f:
            f.write(READER_UNIT % {"reader": blk})
        steps = [gotocc_cpp(["unit.cc"], includes=[os.path.join(VERIF, "stubs", "cstdio"), STD])]
        return steps, cbmc_argv(object_bits=10)
    return build


def _build_split(mutant):
    def build(d):
        p1 = slicer.extract_lines("src/build_log.cc", r"^\s*const char kFieldSeparator = '\\t';", r'^\s*std::string output\(start, end - start\);')
        p1b = slicer.extract_lines("src/build_log.cc", r'^\s*start = end \+ 1;(?=\n\s*end = line_end;)', r'^\s*end = line_end;')
        p2 = slicer.extract_lines("src/build_log.cc", r'^\s*entry->start_time = start_time;', r'^\s*\*end = c;')
        if mutant and mutant.target == "split":
            p1 = mutant(p1)
        txt = SPLIT_UNIT % {"part1": p1 + p1b, "part2": p2}
        txt, c = slicer.lower(txt, ["L1"], must_fire=["L1"])
        with open(os.path.join(d, "unit.cc"), "w") as f:
            f.write(txt)
        steps = [gotocc_cpp(["unit.cc"], defines=["VF_STR_CAP=50"], includes=[STD])]
        return steps, cbmc_argv(unwind=52, object_bits=10)
    return build


def _writer_jobs(tier, mutant):
    from props import buildlogunit
    js = [buildlogunit.job("BuildLog.RecordCommand.contract", "buildlog_writer.cc", ["OP=0", "NENT=3", "SEL=0"], mutant, canaries=2, weight=60.0,
                           bound="a log of 3 records; a command with outputs b (already recorded) and d (new), one of them possibly implicit; times, mtime, open/write failures symbolic")]
    for sel in ((0, 1, 5) if tier == "quick" else (0, 1, 2, 3, 4, 5, 6, 7)):
        js.append(buildlogunit.job("BuildLog.Restat.contract.sel%d" % sel, "buildlog_writer.cc", ["OP=1", "NENT=3", "SEL=%d" % sel], mutant, canaries=2, weight=10.0,
                                   bound="a log of 3 records; restat of the subset mask %d (0 = all); Stat answers and every I/O failure symbolic" % sel))
    for same in (1, 0):
        js.append(buildlogunit.job("BuildLog.Load.entry_update.%s" % ("same_output" if same else "other_output"), "buildlog_loadupdate.cc", ["SAME=%d" % same], mutant, canaries=2 if same else 1, weight=30.0,
                                   bound="two parsed lines (the second for the same / another output); all numeric fields symbolic"))
    return js


def jobs(tier, mutant=None):
    return [
        Job("LineReader.ReadLine.contract", _build_reader(mutant), "proof", timeout=1800, canaries=4,
            functions=["LineReader::LineReader", "LineReader::ReadLine"], weight=5),
        Job("BuildLog.Load.field_splitting.contract", _build_split(mutant), "bounded", timeout=1800, canaries=3,
            bound="every line [start,end] inside a 48-byte window, all contents and all memchr outcomes symbolic",
            functions=["BuildLog::Load (field-splitting statements)"], weight=5),
    ] + _writer_jobs(tier, mutant)


from engine.selftest import subst  # noqa: E402


def _m(target, old, new):
    f = subst(old, new)
    f.target = target
    return f


MUTANTS = [
    ("restat_drops_unselected_records", _m("Restat", "    if (!skip) {\n      const TimeStamp mtime", "    if (skip) continue;\n    {\n      const TimeStamp mtime")),
    ("restat_touches_unselected_mtime", _m("Restat", "bool skip = output_count > 0;", "bool skip = false;")),
    ("log_replaced_after_stat_error", _m("Restat", "      if (mtime == -1) {\n        fclose(f);\n        return false;\n      }", "      if (mtime == -1) {\n        continue;\n      }")),
    ("implicit_outputs_not_recorded", _m("RecordCommand", "out != edge->outputs_.end(); ++out) {", "out != edge->outputs_.end() - edge->implicit_outs_; ++out) {")),
    ("record_not_flushed", _m("RecordCommand", "      if (fflush(log_file_) != 0) {\n          return false;\n      }\n", "")),
    ("largest_mtime_wins", _m("LoadUpdate", "    ++total_entry_count;\n", "    ++total_entry_count;\n    if (mtime < entry->mtime) continue;\n")),
    ("refill_overruns_buffer", _m("reader", "sizeof(buf_) - size_rest, file_);", "sizeof(buf_), file_);")),
    ("next_line_starts_on_newline", _m("reader", "line_start_ = line_end_ + 1;", "line_start_ = line_end_;")),
    ("rest_length_wrong", _m("reader", "size_t size_rest = (buf_end_ - buf_) - already_consumed;", "size_t size_rest = (buf_end_ - buf_);")),
    ("search_past_buffer_end", _m("reader", "memchr(line_start_, '\\n', buf_end_ - line_start_));\n    if (!line_end_) {", "memchr(line_start_, '\\n', buf_end_ - line_start_ + 1));\n    if (!line_end_) {")),
    ("third_field_optional", _m("split", "mtime = strtoll(start, NULL, 10);\n    start = end + 1;\n\n    end = static_cast<char*>(memchr(start, kFieldSeparator, line_end - start));\n    if (!end)\n      continue;", "mtime = strtoll(start, NULL, 10);\n    start = end + 1;\n\n    end = static_cast<char*>(memchr(start, kFieldSeparator, line_end - start));\n    if (!end)\n      end = line_end;")),
    ("tab_search_past_newline", _m("split", "char* end = static_cast<char*>(memchr(start, kFieldSeparator, line_end - start));", "char* end = static_cast<char*>(memchr(start, kFieldSeparator, line_end - start + 2));")),
]


def replay(job, ob, vals, scratch):
    got = extract_inputs(vals, ("b", "s", "e", "a", "r", "k", "ok"))
    return "state=%s" % {k: v[0] for k, v in got.items()}, None, {
        "counterexample_state": {k: v[0] for k, v in got.items()},
        "note": "per-call contract: the counterexample is a reader state / line position plus callee outcomes, not a file"}


def describe(tier):
    return {
        "functions": ["build_log.cc:struct LineReader (constructor, ReadLine)", "build_log.cc:BuildLog::Load (field-splitting statements, by line range)"],
        "checker_cmd": "goto-cc -std=c++11 unit.cc; cbmc + checks (no loops in the units; string model loops bounded by the line buffer)",
        "trusted_base": ["cbmc 6.11.0 C++ front end", "callee contract stubs: memchr (first occurrence via ghost facts), memmove, memset, fread, atoi/strtoll/strtoull",
                         "stubs/cstdio (FILE type only), stubs/std/string (for the `std::string output(start, end - start)` statement)", "lowering L1 (static_cast)"],
        "bounds": {"quick": "none: loop-free given the callee contracts (line window of 48 bytes for the splitter, 256 KiB real buffer for the reader)",
                   "thorough": "same"},
        "assumptions": [
            "callee contracts of memchr/memmove/fread/atoi/strtoll/strtoull are those of libc (not proved here)",
            "the splitter is checked on lines inside a 48-byte window (pointer arithmetic is position-independent)",
            "Load's loop, the entries_ map (last record per output wins), sscanf of the version line, LOAD_NOT_FOUND on a wrong version, Recompact/Restat: outside the unit",
        ],
        "silent": ["recompaction keeps the latest record of live outputs (Recompact not under contract)",
                   "unsupported version discarded with a warning", "a merged line can only look out of date (needs hash semantics)"],
        "explanation": "Per-call contracts of the line reader and of the field splitter on sliced real text with callee contracts; loop-free, complete.",
    }
