"""C04 (readiness clause, modular): the chain Plan::EdgeFinished -> NodeFinished -> EdgeMaybeReady -> ScheduleWork / pass-through and
Plan::ScheduleInitialEdges, Edge::AllInputsReady, each real function against the contracts of its callees (props/planunit.py)."""
from engine.selftest import subst
from props import planjobs, builderjobs, scanjobs

ID = "C04"
USES_CPP = True

MANIFEST = {
    "level_claimed": {
        "category": "other",
        "text": "Readiness clause, modular and bounded in neighbourhood size: the contracts of Plan::EdgeFinished, NodeFinished, EdgeMaybeReady, ScheduleWork, "
                "ScheduleInitialEdges and Edge::AllInputsReady (real text sliced from build.cc / graph.cc) are checked one function at a time against the contracts of "
                "their callees. Together they state: an edge is handed to the ready queue or to its pool - or, if it needs no command, passed through as finished - only when "
                "every producer of each of its inputs (explicit, implicit, order-only; dyndep/depfile inputs are ordinary inputs by then) has finished successfully; "
                "dependents are notified only about nodes whose producer finished; a failed command notifies nobody. 'Under every completion order' follows only "
                "as far as these per-call contracts compose (each postcondition is asserted as the next function's precondition at its call sites); no schedule is explored. "
                "Builder::StartEdge (real text, DiskInterface/CommandRunner by contract): the directories of every output and of the depfile are created and the response file is written "
                "before the command is started, and the command is not started if any of that fails. NOT decided: validations impose no ordering, dyndep re-planning (Plan::DyndepsLoaded).",
        "design_ref": "DESIGN.md 5 C04",
    },
    "level_note": "trusted: " + "; ".join(planjobs.PLAN_TRUST),
    "technique": "contract-based modular verification with CBMC: each real Plan member function against callee contract stubs (assume/assert harness, recursion by contract); bounded neighbourhood sizes",
}

KEYS = ["M1", "M2", "M3", "M4", "M8"]


def jobs(tier, mutant=None):
    return planjobs.select(tier, KEYS, r'\bC04\b', mutant) + builderjobs.select(tier, ["B1"], r'\bC04\b', mutant) + scanjobs.select(tier, ["S3"], r'\bC04\b', mutant)


def _m(target, old, new):
    f = subst(old, new)
    f.target = target
    return f


MUTANTS = [
    ("passthrough_without_readiness", _m("EdgeMaybeReady", "if (edge->AllInputsReady()) {\n    if (want_e->second != kWantNothing) {", "if (edge->AllInputsReady() || want_e->second == kWantNothing) {\n    if (want_e->second != kWantNothing) {")),
    ("order_only_inputs_not_awaited", _m("AllInputsReady", "i != inputs_.end(); ++i) {", "i != inputs_.end() - order_only_deps_; ++i) {")),
    ("ready_flag_set_on_failure", _m("EdgeFinished", "  // The rest of this function only applies to successful commands.\n  if (result != kEdgeSucceeded)\n    return true;\n", "  edge->outputs_ready_ = true;\n  if (result != kEdgeSucceeded)\n    return true;\n")),
    ("implicit_outputs_not_notified", _m("EdgeFinished", "o != edge->outputs_.end(); ++o) {\n    if (!NodeFinished", "o != edge->outputs_.end() - edge->implicit_outs_; ++o) {\n    if (!NodeFinished")),
    ("initial_edges_ignore_readiness", _m("ScheduleInitialEdges", "if (want == kWantToStart && edge->AllInputsReady()) {", "if (want == kWantToStart) {")),
    ("depfile_dir_not_created", _m("StartEdge", "  if (!depfile.empty() && !disk_interface_->MakeDirs(depfile))\n    return false;\n", "")),
    ("mkdir_failure_ignored", _m("StartEdge", "    if (!disk_interface_->MakeDirs((*o)->path()))\n      return false;", "    disk_interface_->MakeDirs((*o)->path());")),
    ("order_only_producers_not_awaited_in_scan", _m("RecomputeEdgesInputsDirty", "      if (!in_edge->outputs_ready_)\n        edge->outputs_ready_ = false;", "      if (!in_edge->outputs_ready_ && !edge->is_order_only(i - edge->inputs_.cbegin()))\n        edge->outputs_ready_ = false;")),
    ("unplanned_consumer_checked", _m("NodeFinished", "    if (want_e == want_.end())\n      continue;\n", "    if (want_e == want_.end())\n      break;\n")),
]


def replay(job, ob, vals, scratch):
    keep = [(lhs, data) for lhs, data, _b, fn, _l in vals if fn == "harness" and lhs and not lhs.startswith("return_value")]
    return "state: " + " ".join("%s=%s" % kv for kv in keep[-30:]), None, {
        "counterexample_state": ["%s=%s" % kv for kv in keep[-80:]],
        "note": "modular contract obligation: the counterexample is a plan state (want_ entries, ready flags) and callee results at one call, not a manifest; "
                "no native replay is built for it"}


def describe(tier):
    return {
        "functions": ["build.cc:Plan::EdgeFinished", "build.cc:Plan::NodeFinished", "build.cc:Plan::EdgeMaybeReady", "build.cc:Plan::ScheduleWork",
                      "build.cc:Plan::ScheduleInitialEdges", "graph.cc:Edge::AllInputsReady", "build.h:struct Plan", "build.cc:Builder::StartEdge"],
        "checker_cmd": "goto-cc -std=c++11 unit.cc (slices + stubs + harness); cbmc a.gb --unwind N --unwinding-assertions + bounds/pointer/overflow checks",
        "trusted_base": planjobs.PLAN_TRUST + builderjobs.TRUST,
        "bounds": {t: "inputs per edge <= 3, outputs <= 2, consumers per node <= 3, initial edges %d; plan membership enumerated, all flags symbolic" % (3 if t == "thorough" else 2) for t in ("quick", "thorough")},
        "assumptions": planjobs.PLAN_ASSUME + [
            "Pool and the ready queue are contract stubs here (the real Pool is under contract in C06); Builder::StartEdge / RealCommandRunner start exactly the edges FindWork returns: by inspection",
            "dyndep- and depfile-discovered inputs are in inputs_ by the time these functions run (DyndepLoader / ImplicitDepLoader: not under contract)"],
        "silent": ["validation targets impose no ordering",
                   "re-planning after a dyndep load (Plan::DyndepsLoaded)", "every completion order / degree of parallelism as a whole-build statement"],
        "explanation": "Per-function contracts over the plan's abstract state (want_ map, outputs_ready flags); the C04 statement is the precondition of the hand-over points "
                       "(ready_.push, Pool::DelayEdge, pass-through) and is asserted there.",
    }
