"""C18 (deletion scope of the cleaner): Cleaner::CleanAll / CleanTarget / CleanRule / CleanDead and their helpers (real text of clean.cc) over a ghost file-system log."""
from engine.selftest import subst
from props import cleanerunit

ID = "C18"
USES_CPP = True

MANIFEST = {
    "level_claimed": {
        "category": "other",
        "text": "Deletion-scope clauses, bounded: on a three-statement graph (one single-output statement with a source input, one two-output statement depending on it, one alias that is "
                "phony or not) with the shape flags (generator statements, depfile/rspfile presence, log contents) enumerated per run and every file-system answer, dry run and verbosity "
                "symbolic, the real Cleaner::CleanAll(-g or not), CleanTarget(each node), CleanRule(each rule) and CleanDead delete exactly - each file once - the outputs, depfiles and "
                "response files of the statements in scope (for cleandead: the logged files that no longer appear anywhere in the graph) and nothing else: never a source file, a phony name, "
                "a file of a statement out of scope or, for a plain clean without -g, a generator output; a dry run removes nothing and reports exactly the existing files in scope; the count and "
                "the exit status follow. NOT decided: that a following build re-creates the files, loading of dyndep files before cleaning, larger graphs. Observation (not asserted either way): "
                "clean by target / by rule deletes generator outputs also without -g.",
        "design_ref": "DESIGN.md 5 C18",
    },
    "level_note": "trusted: cbmc 6.11 C++ front end, model std::string/vector/map, std::set modelled as an insertion-ordered set, shadow Cleaner/State/Rule (members conformance-checked by regex against "
                  "clean.h/state.h/graph.h; the two set members are held through pointers, see props/cleanerunit.py), contract stubs DiskInterface::RemoveFile/Stat (ghost log), "
                  "State::LookupNode (identity of the path storage), DyndepLoader, binding accessors of Edge; lowerings L7, L20, L27 and Edge::rule() spelled through the shadow accessor",
    "technique": "contract-based verification with CBMC: postcondition over a ghost file-system log on the real Cleaner member functions, callee contract stubs; bounded (fixed small graph, enumerated shapes)",
}

SHAPES_Q = [  # (GENMASK, DEPMASK, RSPMASK, PHONY2)
    (1, 3, 2, 1), (0, 7, 1, 0), (2, 0, 0, 1), (5, 5, 7, 0),
]
SHAPES_T = SHAPES_Q + [(3, 7, 7, 1), (0, 0, 0, 0), (4, 2, 4, 0), (7, 7, 0, 0)]


def jobs(tier, mutant=None):
    js = []
    shapes = SHAPES_T if tier == "thorough" else SHAPES_Q

    def mk(name, defs, bound):
        return cleanerunit.job(name, "cleaner.cc", defs, mutant, bound=bound, canaries=2, weight=5.0)
    for (g, d, r, ph) in shapes:
        base = ["GENMASK=%d" % g, "DEPMASK=%d" % d, "RSPMASK=%d" % r, "PHONY2=%d" % ph, "LOGMASK=0"]
        tag = "g%d_d%d_r%d_p%d" % (g, d, r, ph)
        for ga in (0, 1):
            js.append(mk("Cleaner.CleanAll.%s.gen%d" % (tag, ga), ["OP=0", "GENARG=%d" % ga] + base, "shape %s, -g %d; file-system answers, dry run, verbosity symbolic" % (tag, ga)))
        for tgt in ((5, 3) if tier == "quick" else (5, 4, 3, 2, 0)):
            js.append(mk("Cleaner.CleanTarget.%s.t%d" % (tag, tgt), ["OP=1", "TGT=%d" % tgt, "GENARG=0"] + base, "shape %s, target node %d" % (tag, tgt)))
        for rule in (0, 1):
            js.append(mk("Cleaner.CleanRule.%s.r%d" % (tag, rule), ["OP=2", "RULE=%d" % rule, "GENARG=0"] + base, "shape %s, rule r%d" % (tag, rule)))
    for lm in ((31, 6, 25) if tier == "quick" else range(32)):
        js.append(mk("Cleaner.CleanDead.log%d" % lm, ["OP=3", "GENMASK=0", "DEPMASK=0", "RSPMASK=0", "PHONY2=0", "GENARG=0", "LOGMASK=%d" % lm], "log entries mask %d (a, stale, lonely, src, all)" % lm))
    return js


def _m(target, old, new):
    f = subst(old, new)
    f.target = target
    return f


MUTANTS = [
    ("depfile_kept", _m("RemoveEdgeFiles", "  if (!depfile.empty())\n    Remove(depfile);", "")),
    ("phony_outputs_removed", _m("CleanAll", "    if ((*e)->is_phony())\n      continue;\n", "")),
    ("generator_outputs_removed", _m("CleanAll", "if (!generator && (*e)->GetBindingBool(\"generator\"))", "if (generator && (*e)->GetBindingBool(\"generator\"))")),
    ("target_inputs_removed", _m("DoCleanTarget", "      if (cleaned_.count(next) == 0) {\n        DoCleanTarget(next);\n      }", "      if (cleaned_.count(next) == 0) {\n        Remove(next->path());\n        DoCleanTarget(next);\n      }")),
    ("only_named_output_removed", _m("DoCleanTarget", "      for (Node* output : e->outputs_) {\n        Remove(output->path());\n      }", "      Remove(target->path());")),
    ("dry_run_removes", _m("Remove", "    if (config_.dry_run) {", "    if (config_.dry_run && IsVerbose()) {")),
    ("cleandead_removes_live_outputs", _m("CleanDead", "if (!n || (!n->in_edge() && n->out_edges().empty())) {", "if (!n || n->out_edges().empty()) {")),
    ("removed_twice", _m("Remove", "    removed_.insert(path);\n", "")),
]


def replay(job, ob, vals, scratch):
    keep = [(lhs, data) for lhs, data, _b, fn, _l in vals if fn == "harness" and lhs and not lhs.startswith("return_value")]
    return "state: " + " ".join("%s=%s" % kv for kv in keep[-30:]), None, {
        "counterexample_state": ["%s=%s" % kv for kv in keep[-80:]],
        "note": "the counterexample is a graph shape (see the run name) plus file-system answers; replay natively with `ninja -t clean` on the manifest of the harness comment"}


def describe(tier):
    return {
        "functions": ["clean.cc:Cleaner::" + f for f in cleanerunit.ORDER],
        "checker_cmd": "goto-cc -std=c++11 unit.cc (slices + stubs + harness); cbmc a.gb --unwind 14 --unwinding-assertions + checks",
        "trusted_base": ["cbmc 6.11.0 C++ front end", "model std library; std::set as insertion-ordered set", "shadow Cleaner/State/Rule/BuildConfig, contract stubs DiskInterface, DyndepLoader, LookupNode, binding accessors"],
        "bounds": {"quick": "3 statements / 6 nodes; 4 shapes x (clean all with and without -g, 2 targets, 2 rules) + 3 log contents for cleandead", "thorough": "8 shapes x (all, 5 targets, 2 rules) + all 16 log contents"},
        "assumptions": ["BOUNDED: one fixed topology; shapes enumerated; RemoveFile/Stat answers, dry run and verbosity symbolic",
                        "State::LookupNode returns the node with that path (stub by storage identity); Edge::is_phony / GetBinding* are pure (ghost fields)",
                        "ninja.cc maps -t clean / cleandead options to these entry points: by inspection"],
        "silent": ["a following build re-creates the removed files", "dyndep files are loaded before cleaning (LoadDyndeps calls the loader: not asserted)", "clean by target/rule vs generator outputs without -g (observation only)"],
        "explanation": "Postcondition 'the set of RemoveFile calls equals the scope defined by the property statement' over a ghost file-system log.",
    }
