"""Job catalogue of the output-dirtiness unit."""
import re

from props import outdirtyunit


def catalogue(tier, mutant=None):
    J = {}
    for no in (1, 2):
        J["O1.N%d" % no] = outdirtyunit.job("RecomputeOutputsDirtyCache.all_depfile.contract.out%d" % no, "outdirty.cc", ["NOUT=%d" % no, "PHONY=0"], mutant, canaries=3 if no == 2 else 2,
                                            bound="a non-phony statement with %d outputs; existence, mtimes, log presence, per-output record (hash, mtime), restat/generator flags, command hash, most recent input symbolic" % no)
        J["O2.N%d" % no] = outdirtyunit.job("RecomputeOutputsDirtyCache.convergence.out%d" % no, "outdirty.cc", ["NOUT=%d" % no, "PHONY=0", "CONVERGE"], mutant, canaries=2,
                                            bound="%d outputs; the state a successful run leaves behind (FinishCommand contract), everything else symbolic" % no)
    J["O3"] = outdirtyunit.job("RecomputeOutputsDirtyCache.Phony.contract", "outdirty.cc", ["NOUT=2", "PHONY=1"], mutant, canaries=2,
                               bound="a phony statement with 2 outputs, 0-1 inputs, 0-1 validations; existence and mtimes symbolic")
    return J


def select(tier, keys, tag, mutant=None):
    J = catalogue(tier, mutant)
    out = []
    rx = re.compile(tag)
    for k, j in J.items():
        if any(k == s or k.startswith(s + ".") for s in keys):
            j.clause_filter = rx
            out.append(j)
    return out


TRUST = outdirtyunit.TRUST
ASSUME = ["the rule is stated per statement: which node is 'the most recent input' is computed by RecomputeEdgesInputsDirty (not under contract)",
          "BuildLog::LookupByOutput returns the last record of the output (C08 covers how records are read back, not which one wins)"]
