"""C18 unit: Cleaner member functions (sliced from /repo/src/clean.cc) against contract stubs of DiskInterface, State, DyndepLoader and the binding accessors."""
import os
import re

from engine import slicer
from engine.core import Job, VERIF
from engine.routeb import gotocc_cpp, cbmc_argv, STD, unwindset_from_loops

FUNCS = {
    "RemoveFile": r'int\s+Cleaner::RemoveFile\s*\(', "FileExists": r'bool\s+Cleaner::FileExists\s*\(', "Report": r'void\s+Cleaner::Report\s*\(',
    "Remove": r'void\s+Cleaner::Remove\s*\(', "IsAlreadyRemoved": r'bool\s+Cleaner::IsAlreadyRemoved\s*\(', "RemoveEdgeFiles": r'void\s+Cleaner::RemoveEdgeFiles\s*\(',
    "CleanAll": r'int\s+Cleaner::CleanAll\s*\(', "CleanDead": r'int\s+Cleaner::CleanDead\s*\(', "DoCleanTarget": r'void\s+Cleaner::DoCleanTarget\s*\(',
    "CleanTarget": r'int\s+Cleaner::CleanTarget\s*\(\s*Node', "DoCleanRule": r'void\s+Cleaner::DoCleanRule\s*\(', "CleanRule": r'int\s+Cleaner::CleanRule\s*\(\s*const\s+Rule',
    "Reset": r'void\s+Cleaner::Reset\s*\(', "LoadDyndeps": r'void\s+Cleaner::LoadDyndeps\s*\(',
}
ORDER = ["RemoveFile", "FileExists", "Report", "Remove", "IsAlreadyRemoved", "RemoveEdgeFiles", "CleanAll", "CleanDead", "DoCleanTarget", "CleanTarget", "DoCleanRule", "CleanRule", "Reset", "LoadDyndeps"]


def check_shadow():
    c = slicer.read_src("src/clean.h")
    s = slicer.read_src("src/state.h")
    g = slicer.read_src("src/graph.h")
    bl = slicer.read_src("src/build_log.h")
    for text, rx in [
        (c, r'State\*\s+state_;'), (c, r'const\s+BuildConfig&\s+config_;'), (c, r'DyndepLoader\s+dyndep_loader_;'), (c, r'std::set<std::string>\s+removed_;'),
        (c, r'std::set<Node\*>\s+cleaned_;'), (c, r'int\s+cleaned_files_count_;'), (c, r'DiskInterface\*\s+disk_interface_;'), (c, r'int\s+status_;'),
        (c, r'return\s+\(config_\.verbosity\s*!=\s*BuildConfig::QUIET\s*&&\s*\(config_\.verbosity\s*==\s*BuildConfig::VERBOSE\s*\|\|\s*config_\.dry_run\)\);'),
        (s, r'std::vector<Edge\*>\s+edges_;'), (s, r'Node\*\s+LookupNode\(StringPiece\s+path\)\s+const;'),
        (g, r'const\s+Rule&\s+rule\(\)\s+const\s*\{\s*return\s+\*rule_;\s*\}'), (g, r'Node\*\s+dyndep_\s*=\s*nullptr;'),
        (bl, r"typedef\s+ExternalStringHashMap<std::unique_ptr<LogEntry>>::Type\s+Entries;"),
    ]:
        if not re.search(rx, text):
            raise slicer.SliceError("shadow for the Cleaner unit out of date: /%s/ not found" % rx)


PRELUDE = r'''
#define VF_EDGE_BINDINGS
#include "graph.h"
#include <algorithm>
#include <utility>
#include "string_piece.h"
long nondet_long();
/* insertion-ordered set model with equality (std::set<std::string> / std::set<Node*>: the code only inserts, finds and counts) */
namespace std {
template <class T> class vf_uset {
 public:
  typedef T* iterator; typedef const T* const_iterator; typedef T value_type;
  T d_[VF_SET_CAP]; size_t n_;
  vf_uset() : n_(0) {}
  size_t size() const { return n_; } bool empty() const { return n_ == 0; }
  iterator begin() { return d_; } iterator end() { return d_ + n_; }
  void clear() { n_ = 0; }
  iterator find(const T& v) { for (size_t k = 0; k < n_; k++) if (d_[k] == v) return d_ + k; return d_ + n_; }
  size_t count(const T& v) const { for (size_t k = 0; k < n_; k++) if (d_[k] == v) return 1; return 0; }
  vf_pair<iterator, bool> insert(const T& v) {
    vf_pair<iterator, bool> r;
    for (size_t k = 0; k < n_; k++) if (d_[k] == v) { r.first = d_ + k; r.second = false; return r; }
    __CPROVER_assert(n_ < VF_SET_CAP, "model capacity: set::insert"); __CPROVER_assume(n_ < VF_SET_CAP);
    d_[n_] = v; n_++; r.first = d_ + (n_ - 1); r.second = true; return r;
  }
};
}
#define set vf_uset
using namespace std;
static bool vf_streq(const char* a, const char* b) { size_t i = 0; for (; i < 17; i++) { if (a[i] != b[i]) return false; if (!a[i]) return true; } return false; }
std::string Edge::GetBinding(const char* key) const {
  if (vf_streq(key, "deps")) return vf_deps;
  __CPROVER_assert(0, "model capacity: shadow Edge::GetBinding: key not modelled"); __CPROVER_assume(0);
  return std::string();
}
bool Edge::GetBindingBool(const char* key) const {
  if (vf_streq(key, "generator")) return vf_generator;
  __CPROVER_assert(0, "model capacity: shadow Edge::GetBindingBool: key not modelled"); __CPROVER_assume(0);
  return false;
}
struct Rule {
  std::string name_; bool vf_generator;      /* vf_generator: the RULE itself binds generator (an edge may also get it from its own or a file-level binding) */
  Rule() : vf_generator(false) {}
  std::string& name() const { return const_cast<Rule*>(this)->name_; }
  /* contract stub of Rule::GetBinding(key): non-null exactly if the rule itself binds the key */
  const void* GetBinding(const char* key) const { if (vf_streq(key, "generator")) return vf_generator ? (const void*)this : (const void*)0; __CPROVER_assert(0, "model capacity: shadow Rule::GetBinding: key not modelled"); __CPROVER_assume(0); return 0; }
};
static Rule& vf_rule_of(const Edge* e) { return *const_cast<Rule*>(e->rule_); }
#define rule() vf_rule_ref()
/* ---- ghost log of file-system operations; paths are interned by the harness ---- */
#define VF_EV_CAP 20
#define VF_PATHS 12
enum { EV_REMOVE = 1, EV_STAT };
static std::string vf_known_path[VF_PATHS]; static int vf_known_n = 0;
static int vf_register_path(const std::string& p) { vf_known_path[vf_known_n] = p; return vf_known_n++; }
static int vf_path_id(const std::string& p) { int r = -1; for (int i = VF_PATHS - 1; i >= 0; i--) if (i < vf_known_n && vf_known_path[i] == p) r = i; return r; }
static int vf_ev_kind[VF_EV_CAP]; static int vf_ev_pid[VF_EV_CAP]; static long vf_ev_num[VF_EV_CAP]; static int vf_ev_n = 0;
static void vf_ev(int kind, int pid, long num) {
  __CPROVER_assert(vf_ev_n < VF_EV_CAP, "model capacity: event log"); __CPROVER_assume(vf_ev_n < VF_EV_CAP);
  vf_ev_kind[vf_ev_n] = kind; vf_ev_pid[vf_ev_n] = pid; vf_ev_num[vf_ev_n] = num; vf_ev_n++;
}
struct DiskInterface {
  long vf_remove_ret[VF_PATHS]; long vf_stat_ret[VF_PATHS];        /* per path id: what the file system answers */
  int RemoveFile(const std::string& path) {                        /* contract: 0 removed, 1 did not exist, -1 error */
    int id = vf_path_id(path); long r = id >= 0 ? vf_remove_ret[id] : 1;
    vf_ev(EV_REMOVE, id, r); return (int)r;
  }
  TimeStamp Stat(const std::string& path, std::string* err) {
    int id = vf_path_id(path); long r = id >= 0 ? vf_stat_ret[id] : 0;
    vf_ev(EV_STAT, id, r); if (r == -1) *err = "stat error"; return r;
  }
};
struct BuildConfig { enum Verbosity { QUIET, NO_STATUS_UPDATE, NORMAL, VERBOSE }; Verbosity verbosity; bool dry_run; BuildConfig() : verbosity(QUIET), dry_run(false) {} };
struct State {
  std::vector<Edge*> edges_;
  Node* vf_nodes[8]; int vf_nn;
  State() : vf_nn(0) {}
  Node* LookupNode(StringPiece path) const {                      /* contract: the node with that path, or NULL */
    Node* r = 0;
    /* the harness builds log keys that alias the node's own path storage (as BuildLog does for loaded entries vs. State for nodes, modulo content equality):
       identity of the storage stands for equality of the text, which keeps the lookup result concrete */
    for (int i = 0; i < 8; i++) if (i < vf_nn) { if (vf_nodes[i]->path_.data() == path.str_ && vf_nodes[i]->path_.size() == path.len_) r = vf_nodes[i]; }
    return r;
  }
};
static int vf_dyndep_loads = 0;
struct DyndepLoader { bool LoadDyndeps(Node* node, std::string* err) { (void)node; (void)err; vf_dyndep_loads++; return nondet_bool(); } };
struct BuildLog { typedef std::map<StringPiece, int> Entries; };           /* real: unordered_map<StringPiece, unique_ptr<LogEntry>>; only the keys are used */
static int vf_printfs = 0, vf_errors = 0;
#define printf(...) (vf_printfs++)
#define fflush(x) (0)
#define Error(...) (vf_errors++)
struct Cleaner {
  Cleaner(State* state, BuildConfig* config, DiskInterface* disk_interface)
    : state_(state), config_p_(config), cleaned_files_count_(0), disk_interface_(disk_interface), status_(0) { removed_p_ = new std::set<std::string>; cleaned_p_ = new std::set<Node*>; }
  int CleanTarget(Node* target);
  int CleanAll(bool generator = false);
  int CleanRule(const Rule* rule);
  int CleanDead(const BuildLog::Entries& entries);
  bool IsVerbose() const { return (config_p_->verbosity != BuildConfig::QUIET && (config_p_->verbosity == BuildConfig::VERBOSE || config_p_->dry_run)); }
  int RemoveFile(const std::string& path);
  bool FileExists(const std::string& path);
  void Report(const std::string& path);
  void Remove(const std::string& path);
  bool IsAlreadyRemoved(const std::string& path);
  void RemoveEdgeFiles(Edge* edge);
  void DoCleanTarget(Node* target);
  void PrintHeader() {}
  void PrintFooter() {}
  void DoCleanRule(const Rule* rule);
  void Reset();
  void LoadDyndeps();
  State* state_;
  BuildConfig* config_p_;
  DyndepLoader dyndep_loader_;
  /* real: `std::set<std::string> removed_; std::set<Node*> cleaned_;` as direct members.  Held through pointers to separate objects here: a write at a symbolic
     index into an array member makes CBMC 6.11 rebuild the neighbouring pointer members from bytes and abort ("__CPROVER_memory was not found") */
  std::set<std::string>* removed_p_;
  std::set<Node*>* cleaned_p_;
  int cleaned_files_count_;
  DiskInterface* disk_interface_;
  int status_;
};
#define config_ (*config_p_)
#define removed_ (*removed_p_)
#define cleaned_ (*cleaned_p_)
/* ---- verbatim slices of /repo/src/clean.cc (L7 range-for, L27 declaration in condition, edge->rule() -> shadow accessor) ---- */
%(funcs)s
/* ---- end of slices ---- */
'''


def unit_text(mutant=None):
    check_shadow()
    parts = []
    for name in ORDER:
        f = slicer.extract_function("src/clean.cc", FUNCS[name])
        if mutant and getattr(mutant, "target", None) == name:
            f = mutant(f)
        parts.append(f)
    body = "\n\n".join(parts)
    body, n7 = re.subn(r'for\s*\(\s*(\w+)\s*\*\s*(\w+)\s*:\s*([\w>-]+)\s*\)\s*\{',
                       lambda m: "for (std::vector<%s*>::iterator vf_it_%s = %s.begin(); vf_it_%s != %s.end(); ++vf_it_%s) { %s* %s = *vf_it_%s;" % (
                           m.group(1), m.group(2), m.group(3), m.group(2), m.group(3), m.group(2), m.group(1), m.group(2), m.group(2)), body)
    body, n27 = re.subn(r'\bif\s*\(\s*(\w+)\s*\*\s*(\w+)\s*=\s*([^;{}]+?)\)\s*\{', r'\1* \2 = \3; if (\2) {', body)
    # the real Edge::rule() returns `const Rule&` (rejected by the front end for member access chains): spelled through the shadow accessor
    body, nr = re.subn(r'\(\*(\w+)\)->rule\(\)', r'vf_rule_of(*\1)', body)
    body, n20 = re.subn(r'\bBuildLog::Entries::const_iterator\b', 'std::map<StringPiece, int>::const_iterator', body)      # L20
    if re.search(r'->rule\(\)', body):
        raise slicer.SliceError("an uncovered ->rule() use remains")
    return (PRELUDE.replace("#define rule() vf_rule_ref()\n", "")) % {"funcs": body}, {"L7": n7, "L27": n27, "L12": nr, "L20": n20}


def build_fn(harness_file, defines=(), mutant=None, unwind=14, str_cap=16):
    def build(d):
        unit, counts = unit_text(mutant)
        with open(os.path.join(VERIF, "props", "harness", harness_file)) as f:
            h = f.read()
        with open(os.path.join(d, "unit.cc"), "w") as f:
            f.write(unit + h)
        with open(os.path.join(d, "string_piece.h"), "w") as f:
            from engine.routeb import mirrored_string_piece
            f.write(mirrored_string_piece())
        with open(os.path.join(d, "util.h"), "w") as f:
            f.write(slicer.read_src("src/util.h"))
        steps = [gotocc_cpp(["unit.cc"], defines=list(defines) + ["VF_STR_CAP=%d" % str_cap, "VF_VEC_CAP=4", "VF_MAP_CAP=5", "VF_SET_CAP=12"],
                            includes=[d, os.path.join(VERIF, "props", "harness"), os.path.join(VERIF, "stubs", "ninja_plan"), os.path.join(VERIF, "stubs", "cstring"), STD, os.path.join(VERIF, "stubs")])]
        build.lowerings = counts

        def post(dd, av):
            us, _ = unwindset_from_loops(dd, "a.gb", [("vf_s_", str_cap + 4), ("harness.", 24), ("vf_path_id", 14), ("vf_memcmp", str_cap + 4)])
            return av + (["--unwindset", us] if us else [])
        return steps, cbmc_argv(unwind=unwind, object_bits=11), post
    return build


def job(name, harness_file, defines=(), mutant=None, bound=None, canaries=1, weight=1.0, timeout=1800):
    j = Job(name, build_fn(harness_file, defines, mutant), "bounded", timeout=timeout, canaries=canaries, bound=bound,
            functions=["clean.cc:Cleaner::" + r for r in ORDER], weight=weight)
    j.strict_bodies = True
    return j
