"""Output-dirtiness unit: the member functions of RecomputeOutputsDirtyCache (graph.cc) - all, depfile, Phony, CachedLogEntry::LookupByOutput and the member template
RecomputeOutputDirty<FIRSTRUN> - sliced verbatim, compiled against a shadow of the class declarations.  Used by C02 / C01 / C03."""
import os
import re

from engine import slicer
from engine.core import Job, VERIF
from engine.routeb import gotocc_cpp, cbmc_argv, STD, unwindset_from_loops

SIGS = {
    "LookupByOutput": r'bool\s+RecomputeOutputsDirtyCache::CachedLogEntry::LookupByOutput\s*\(',
    "all": r'bool\s+RecomputeOutputsDirtyCache::all\s*\(',
    "depfile": r'bool\s+RecomputeOutputsDirtyCache::depfile\s*\(',
    "Phony": r'bool\s+RecomputeOutputsDirtyCache::Phony\s*\(',
    "RecomputeOutputDirty": r'template\s*<bool\s+FIRSTRUN>\s*bool\s+RecomputeOutputsDirtyCache::RecomputeOutputDirty\s*\(',
}


def check_shadow():
    c = slicer.read_src("src/graph.cc")
    for rx in [r'const\s+BuildLog\*\s+const\s+buildLog_;', r'const\s+Edge\*\s+const\s+edge_;', r'const\s+bool\s+isRestat_\s*=\s*edge_->GetBindingBool\("restat"\);',
               r'bool\s+generator_\s*=\s*false;', r'bool\s+generatorValid_\s*=\s*false;', r'std::vector<CachedLogEntry>\s+logEntry_;',
               r'LazyEdgeCommandHash\s+commandHash_\s*=\s*LazyEdgeCommandHash\(edge_\);', r'bool\s+evaluated_\s*=\s*false;', r'BuildLog::LogEntry\*\s+entry_\s*=\s*nullptr;',
               r'bool\s+is_valid\(\)\s+const\s*\{\s*return\s+entry_;\s*\}', r'const\s+BuildLog::LogEntry\*\s+operator->\(\)\s+const\s*\{\s*return\s+entry_;\s*\}',
               r'logEntry_\(edge->outputs_\.size\(\)\)',
               r'return\s+command_\s*=\s*BuildLog::LogEntry::HashCommand\(\s*edge_->EvaluateCommand\(/\*incl_rsp_file=\*/true\)\);',
               r'#define\s+IF_FIRSTRUN\(cond\)\s*\\\s*if\s+constexpr\s*\(!FIRSTRUN\)\s*assert\(!\(cond\)\);\s*/\*\s*NOLINT\s*\*/\s*\\\s*if\s+constexpr\s*\(FIRSTRUN\)\s*if\s*\(cond\)']:
        if not re.search(rx, c):
            raise slicer.SliceError("shadow for the output-dirtiness unit out of date: /%s/ not found" % rx)
    b = slicer.read_src("src/build_log.h")
    for rx in [r'uint64_t\s+command_hash\s*=\s*0;', r'TimeStamp\s+mtime\s*=\s*0;', r'LogEntry\*\s+LookupByOutput\(const\s+std::string&\s+path\)\s+const;']:
        if not re.search(rx, b):
            raise slicer.SliceError("shadow for the output-dirtiness unit out of date: /%s/ not found" % rx)


PRELUDE = r'''
#define VF_EDGE_BINDINGS
#include "graph.h"
#include <algorithm>
#include <utility>
using namespace std;
long nondet_long(); unsigned long nondet_ulong();
static bool vf_streq(const char* a, const char* b) { size_t i = 0; for (; i < 17; i++) { if (a[i] != b[i]) return false; if (!a[i]) return true; } return false; }
static int vf_restat_reads = 0, vf_generator_reads = 0;
std::string Edge::GetBinding(const char* key) const { (void)key; __CPROVER_assert(0, "model capacity: shadow Edge::GetBinding: key not modelled"); __CPROVER_assume(0); return std::string(); }
bool Edge::GetBindingBool(const char* key) const {
  if (vf_streq(key, "restat")) { vf_restat_reads++; return vf_restat; }
  if (vf_streq(key, "generator")) { vf_generator_reads++; return vf_generator; }
  __CPROVER_assert(0, "model capacity: shadow Edge::GetBindingBool: key not modelled"); __CPROVER_assume(0);
  return false;
}
void Node::UpdatePhonyMtime(TimeStamp mtime) { if (!exists()) { mtime_ = mtime_ > mtime ? mtime_ : mtime; } }      /* graph.cc, verbatim modulo std::max */
static uint64_t vf_cmd_hash = 0; static int vf_hash_calls = 0;
struct BuildLog {
  struct LogEntry {
    uint64_t command_hash; TimeStamp mtime;
    LogEntry() : command_hash(0), mtime(0) {}
    static uint64_t HashCommand(const std::string& command) { (void)command; vf_hash_calls++; return vf_cmd_hash; }      /* contract: a function of the evaluated command */
  };
  LogEntry* vf_entry[2]; Node* vf_node[2]; int vf_lookups;
  BuildLog() : vf_lookups(0) { vf_entry[0] = 0; vf_entry[1] = 0; vf_node[0] = 0; vf_node[1] = 0; }
  /* contract of LookupByOutput: the last record for that output path, or NULL */
  LogEntry* LookupByOutput(const std::string& path) const {
    const_cast<BuildLog*>(this)->vf_lookups++;
    LogEntry* r = 0;
    for (int i = 0; i < 2; i++) if (vf_node[i] != 0 && vf_node[i]->path_.data() == path.data()) r = vf_entry[i];
    return r;
  }
};
static int vf_records = 0;
struct OptionalExplanations { int x; };
static void vf_record_(const Node* n, const char* fmt, ...) { (void)n; (void)fmt; vf_records++; }
#define PRId64 "ld"
/* ---- shadow of the class declarations of graph.cc (anonymous namespace): same members, initialisers moved into constructors (F-a), operator-> spelled vf_get() (F-n),
   the member template declared as its two instances ---- */
struct LazyEdgeCommandHash {
  LazyEdgeCommandHash(const Edge* edge) : edge_((Edge*)edge), command_(0), valid_(false) {}
  uint64_t operator()() {
    if (!valid_) {
      valid_ = true;
      return command_ = BuildLog::LogEntry::HashCommand(edge_->EvaluateCommand(/*incl_rsp_file=*/true));
    }
    return command_;
  }
  Edge* edge_; uint64_t command_; bool valid_;      /* real: const Edge* (the front end mis-types const pointer members declared after inline functions) */
};
class RecomputeOutputsDirtyCache {
 public:
  class CachedLogEntry {
   public:
    CachedLogEntry() : evaluated_(false), entry_(0) {}
    bool is_valid() const { return entry_ != 0; }
    bool LookupByOutput(const BuildLog* buildLog, const Node* output);
    const BuildLog::LogEntry* vf_get() const { return entry_; }
    bool evaluated_; BuildLog::LogEntry* entry_;
  };
  RecomputeOutputsDirtyCache(BuildLog* build_log, OptionalExplanations& explanations, Edge* edge)
      : buildLog_(build_log), explanations_p_(&explanations), edge_(edge), isRestat_(edge->GetBindingBool("restat")), generator_(false), generatorValid_(false),
        commandHash_(edge) { for (size_t i = 0; i < edge->outputs_.size(); i++) logEntry_.push_back(CachedLogEntry()); }
  bool all(const Node* most_recent_input);
  bool depfile(const Node* most_recent_input);
  bool RecomputeOutputDirty_true(const Node* output, const Node* most_recent_input, CachedLogEntry& entry);
  bool RecomputeOutputDirty_false(const Node* output, const Node* most_recent_input, CachedLogEntry& entry);
  bool Phony(Node* output, const Node* most_recent_input) const;
  BuildLog* buildLog_; OptionalExplanations* explanations_p_; Edge* edge_;      /* real: const BuildLog* const, OptionalExplanations&, const Edge* const */
  bool isRestat_; bool generator_; bool generatorValid_;
  std::vector<CachedLogEntry> logEntry_;
  LazyEdgeCommandHash commandHash_;
};
/* ---- verbatim slices of /repo/src/graph.cc (lowerings in props/outdirtyunit.py) ---- */
%(funcs)s
/* ---- end of slices ---- */
'''


def unit_text(mutant=None):
    check_shadow()
    parts = []
    for name in ("LookupByOutput", "all", "depfile", "Phony", "RecomputeOutputDirty"):
        f = slicer.extract_function("src/graph.cc", SIGS[name])
        if mutant and getattr(mutant, "target", None) == name:
            f = mutant(f)
        if name == "RecomputeOutputDirty":
            # the member template is instantiated by hand, as the compiler does: FIRSTRUN := true / false; `if constexpr (c)` with a constant c is `if (c)`
            f = re.sub(r'^template\s*<bool\s+FIRSTRUN>\s*', '', f)
            inst = []
            for val in ("true", "false"):
                g = f.replace("RecomputeOutputsDirtyCache::RecomputeOutputDirty(", "RecomputeOutputsDirtyCache::RecomputeOutputDirty_%s(" % val, 1)
                g, k = re.subn(r'IF_FIRSTRUN\s*\(', 'IF_FIRSTRUN_%s (' % val.upper(), g)
                g = re.sub(r'\bFIRSTRUN\b', val, g)          # the template parameter itself, where the body names it
                g = re.sub(r'\bif\s+constexpr\s*\(', 'if (', g)      # with the parameter substituted the condition is a constant: `if constexpr (c)` is `if (c)`
                inst.append(g)
            f = "\n\n".join(inst)
        parts.append(f)
    body = "\n\n".join(parts)
    body, nt = re.subn(r'RecomputeOutputDirty<(true|false)>\(', r'RecomputeOutputDirty_\1(', body)
    body, ne = re.subn(r'explanations_\.Record\(', 'vf_record_(', body)
    body, na = re.subn(r'\bentry->', 'entry.vf_get()->', body)          # F-n: user operator-> spelled out
    body, ns = re.subn(r'\bstd::size_t\b', 'size_t', body)
    if re.search(r'->\s*operator|<true>|<false>|if\s+constexpr', body):
        raise slicer.SliceError("an uncovered template / constexpr construct remains")
    macros = ("#define IF_FIRSTRUN_TRUE(cond) if (cond)\n"
              "#define IF_FIRSTRUN_FALSE(cond) assert(!(cond)); if (false)\n")     # the two instances of the IF_FIRSTRUN macro (conformance-checked above)
    return PRELUDE % {"funcs": macros + body}, {"T1(template instances)": 2, "explanations": ne, "L_arrow": na, "calls": nt}


def build_fn(harness_file, defines=(), mutant=None, unwind=20, str_cap=24):
    def build(d):
        unit, counts = unit_text(mutant)
        with open(os.path.join(VERIF, "props", "harness", harness_file)) as f:
            h = f.read()
        with open(os.path.join(d, "unit.cc"), "w") as f:
            f.write(unit + h)
        steps = [gotocc_cpp(["unit.cc"], defines=list(defines) + ["NDEBUG", "VF_STR_CAP=%d" % str_cap, "VF_VEC_CAP=3", "VF_MAP_CAP=3", "VF_SET_CAP=3"],
                            includes=[os.path.join(VERIF, "props", "harness"), os.path.join(VERIF, "stubs", "ninja_plan"), os.path.join(VERIF, "stubs", "cstring"), STD, os.path.join(VERIF, "stubs")])]
        build.lowerings = counts

        def post(dd, av):
            us, _ = unwindset_from_loops(dd, "a.gb", [("vf_s_", str_cap + 4), ("harness.", 8)])
            return av + (["--unwindset", us] if us else [])
        return steps, cbmc_argv(unwind=unwind, object_bits=11), post
    return build


def job(name, harness_file, defines=(), mutant=None, bound=None, canaries=1, weight=1.0, timeout=1200):
    j = Job(name, build_fn(harness_file, defines, mutant), "bounded", timeout=timeout, canaries=canaries, bound=bound,
            functions=["graph.cc:RecomputeOutputsDirtyCache::" + r for r in ("all", "depfile", "Phony", "RecomputeOutputDirty<true>", "RecomputeOutputDirty<false>", "CachedLogEntry::LookupByOutput")], weight=weight)
    j.strict_bodies = True
    return j


TRUST = ["cbmc 6.11.0 C++ front end", "model std::string/vector", "shadow Node/Edge (stubs/ninja_plan/graph.h); shadow of the class declarations RecomputeOutputsDirtyCache / CachedLogEntry / LazyEdgeCommandHash "
         "(member list and initialisers conformance-checked by regex against graph.cc; default member initialisers moved into constructors, operator-> spelled vf_get())",
         "the member template RecomputeOutputDirty<FIRSTRUN> is instantiated textually for true and false, `if constexpr (c)` read as `if (c)`; compiled with NDEBUG (the debug-only bookkeeping members and asserts are dropped)",
         "contract stubs: BuildLog::LookupByOutput (by storage identity of the path), LogEntry::HashCommand (ghost value), Edge::GetBindingBool/EvaluateCommand (ghost fields), explanations (counting stub)"]
