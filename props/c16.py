"""C16 ($in/$out clause): IsKnownShellSafeCharacter (Route A, DFCC, all 256 values => proof),
StringNeedsShellEscaping + GetShellEscapedString (Route B, bounded per name length),
EdgeEnv::MakePathList + Node::PathDecanonicalized (Route B, bounded lists)."""
import itertools
import os
import re
import subprocess

from engine import slicer
from engine.core import Job, VERIF, extract_inputs, array_from
from engine.routeb import gotocc_cpp, cbmc_argv, STD
from engine.selftest import subst
from props import builderjobs

ID = "C16"
USES_CPP = True   # adds the front-end assumption canaries (engine/frontend.py) to every run of this check

MANIFEST = {
    "level_claimed": {
        "category": "other",
        "text": "$in/$out/$in_newline clause: (proof) IsKnownShellSafeCharacter's contract - every byte it calls safe is inert for sh - is enforced "
                "by goto-instrument --dfcc over all 256 values; (bounded) for every name without NUL/newline up to the tier length, the text "
                "GetShellEscapedString appends is split by an independent POSIX word-splitting spec into exactly one word equal to the name, and is the "
                "name itself when all characters are safe; (bounded) EdgeEnv::MakePathList over lists of up to 2/3 such names yields exactly those words in order. "
                "Response-file clause (modular, real text of Builder::StartEdge / FinishCommand against contract stubs of DiskInterface and CommandRunner): the response file is written with exactly "
                "the evaluated rspfile_content - whatever it is, including empty - before the command is started, nothing is started if it cannot be written, it is removed after the command "
                "succeeds (unless -d keeprsp) and kept when it fails. That rspfile_content itself is evaluated as documented belongs to C12.",
        "design_ref": "DESIGN.md 5 C16",
    },
    "level_note": "trusted: cbmc 6.11, stubs/std/string model, specs/sh_words.h (POSIX XCU 2.2/2.3 subset; tied to the installed /bin/sh by the native replay), "
                  "shadow Node/EdgeEnv (members checked by regex against graph.h/graph.cc); bounds: names <= 5 (quick) / 7 (thorough) bytes, lists <= 2 / 3 names of <= 2 bytes",
    "technique": "contract-based verification with CBMC: DFCC function contract (table, complete) + assume/assert contract harnesses on sliced real code (bounded)",
}

UTIL = "src/util.cc"
SIG_SAFE = r'static\s+inline\s+bool\s+IsKnownShellSafeCharacter\s*\('
SIG_NEEDS = r'static\s+inline\s+bool\s+StringNeedsShellEscaping\s*\('
SIG_ESC = r'void\s+GetShellEscapedString\s*\('
SIG_MPL = r'std::string\s+EdgeEnv::MakePathList\s*\('
SIG_DECANON = r'string\s+Node::PathDecanonicalized\s*\(\s*const\s+string&\s*path'

NAME_BOUNDS = {"quick": [1, 2, 3, 4, 5], "thorough": [1, 2, 3, 4, 5, 6, 7]}


def list_shapes(tier):
    shapes = []
    maxn = 2 if tier == "quick" else 3
    for n in range(1, maxn + 1):
        for lens in itertools.product([1, 2], repeat=n):
            shapes.append(lens)
    if tier == "thorough":
        shapes += [(3, 1), (1, 3), (3, 3)]
    return shapes


SAFE_UNIT = r'''
#include <stdbool.h>
#include "sh_words.h"
%(func)s
char nondet_char(void);
void harness(void) { char c = nondet_char(); bool r = IsKnownShellSafeCharacter(c); (void)r; }
void vacuity(void) {
  char c = nondet_char();
  bool r = IsKnownShellSafeCharacter(c);
  if (r) __CPROVER_assert(0, "canary: some byte is classified safe");
  if (!r) __CPROVER_assert(0, "canary: some byte is classified unsafe");
  __CPROVER_assert(c != 'a' || r, "post C16: 'a' is passed verbatim (no needless quoting)");
  __CPROVER_assert(c != '/' || r, "post C16: '/' is passed verbatim (no needless quoting)");
}
'''


def _build_safe(mutant, entry):
    def build(d):
        f = slicer.extract_function(UTIL, SIG_SAFE)
        if mutant and mutant.target == "safe":
            f = mutant(f)
        if entry == "harness":
            with open(os.path.join(VERIF, "contracts", "IsKnownShellSafeCharacter.contract")) as fh:
                f = slicer.inject_function_contract(f, fh.read())
        with open(os.path.join(d, "unit.c"), "w") as fh:
            fh.write(SAFE_UNIT % {"func": f})
        steps = [["goto-cc", "-I", os.path.join(VERIF, "specs"), "--function", entry, "unit.c", "-o", "a.gb"]]
        gb = "a.gb"
        if entry == "harness":
            steps.append(["goto-instrument", "--dfcc", "harness", "--enforce-contract", "IsKnownShellSafeCharacter", "a.gb", "b.gb"])
            gb = "b.gb"
        return steps, ["cbmc", gb, "--bounds-check", "--pointer-check", "--signed-overflow-check"]
    return build


ESC_UNIT = r'''
#include <string>
#include <assert.h>
using namespace std;
extern "C" {
#include "libc_mem.h"
#include "sh_words.h"
}
/* ---- verbatim slices of /repo/src/util.cc ---- */
%(slices)s
/* ---- end of slices ---- */
unsigned char nondet_uchar();
extern "C" void harness() {
  unsigned char orig[L];
  string in;
  bool all_safe = true;
  for (int i = 0; i < L; i++) {
    orig[i] = nondet_uchar();
    __CPROVER_assume(orig[i] != 0 && orig[i] != '\n');   /* C16 quantifies over names without NUL and newline */
    in.push_back((char)orig[i]);
    unsigned char c = orig[i];
    if (!(SH_ALNUM(c) || c == '_' || c == '+' || c == '-' || c == '.' || c == '/')) all_safe = false;
  }
  string result;
#ifdef PREFIX
  result.push_back('x'); result.push_back(' ');
#endif
  size_t before = result.size();
  GetShellEscapedString(in, &result);
  unsigned char words[2 * (L + 1)];
  size_t lens[2];
  int nw = sh_split((const unsigned char*)result.data() + before, result.size() - before, words, L + 1, lens, 2);
  __CPROVER_assert(nw != -1, "post C16: no unquoted shell-special byte, no unterminated quote in the substituted text");
  __CPROVER_assert(nw == 1, "post C16: sh reads the substituted text as exactly one word");
  if (nw == 1) {
    __CPROVER_assert(lens[0] == L, "post C16: the word has the length of the name");
    for (int i = 0; i < L; i++)
      if (lens[0] == L) __CPROVER_assert(words[i] == orig[i], "post C16: the word equals the name byte for byte");
  }
  if (all_safe) {
    __CPROVER_assert(result.size() - before == L, "post C16: a name that needs no quoting is passed verbatim (length)");
    for (int i = 0; i < L; i++)
      if (result.size() - before == L) __CPROVER_assert((unsigned char)result[before + i] == orig[i], "post C16: a name that needs no quoting is passed verbatim (bytes)");
  }
#ifdef PREFIX
  __CPROVER_assert(result[0] == 'x' && result[1] == ' ', "frame C16: text already in *result is untouched");
#endif
  __CPROVER_assert(0, "canary: end of harness reachable");
}
'''


def util_slices(mutant):
    parts = []
    for sig, tgt in ((SIG_SAFE, "safe"), (SIG_NEEDS, "needs"), (SIG_ESC, "esc")):
        f = slicer.extract_function(UTIL, sig)
        if mutant and mutant.target == tgt:
            f = mutant(f)
        parts.append(f)
    return "\n\n".join(parts)


def _build_esc(L, mutant, prefix):
    def build(d):
        with open(os.path.join(d, "unit.cc"), "w") as fh:
            fh.write(ESC_UNIT % {"slices": util_slices(mutant)})
        cap = 4 * L + 6
        steps = [gotocc_cpp(["unit.cc"], defines=["L=%d" % L, "VF_STR_CAP=%d" % cap] + (["PREFIX"] if prefix else []),
                            includes=[STD, os.path.join(VERIF, "stubs"), os.path.join(VERIF, "specs")])]
        return steps, cbmc_argv(unwind=cap + 3)
    return build


MPL_UNIT = r'''
#include <string>
#include <assert.h>
#include <stdint.h>
using namespace std;
extern "C" {
#include "libc_mem.h"
#include "sh_words.h"
}
/* shadow of graph.h: only what MakePathList touches (checked by regex against the real header) */
struct Node {
  std::string path_;
  uint64_t slash_bits_;
  std::string PathDecanonicalized() const { return PathDecanonicalized(path_, slash_bits_); }
  static std::string PathDecanonicalized(const std::string& path, uint64_t slash_bits);
};
typedef const Node* vf_NodeCP;
struct EdgeEnv {
  enum EscapeKind { kShellEscape, kDoNotEscape };
  EscapeKind escape_in_out_;
  /* declaration generated from the sliced definition (CBMC's front end does not ignore top-level const of
     parameters when matching an out-of-class definition to its declaration) */
  %(mpl_decl)s
};
/* ---- verbatim slices of /repo/src/util.cc and /repo/src/graph.cc ---- */
%(slices)s
/* ---- end of slices ---- */
unsigned char nondet_uchar();
bool nondet_bool();
static const int LENS[NNODES] = { LENLIST };
extern "C" void harness() {
  Node nodes[NNODES];
  const Node* span[NNODES];
  unsigned char orig[NNODES][MAXLEN];
  for (int k = 0; k < NNODES; k++) {
    for (int i = 0; i < LENS[k]; i++) {
      orig[k][i] = nondet_uchar();
      __CPROVER_assume(orig[k][i] != 0 && orig[k][i] != '\n');
      nodes[k].path_.push_back((char)orig[k][i]);
    }
    nodes[k].slash_bits_ = 0;
    span[k] = &nodes[k];
  }
  EdgeEnv env;
  env.escape_in_out_ = EdgeEnv::kShellEscape;
  char sep = nondet_bool() ? ' ' : '\n';          /* $in/$out vs $in_newline: the only two call sites */
  string result = env.MakePathList(span, NNODES, sep);
  unsigned char words[(NNODES + 1) * (MAXLEN + 1)];
  size_t lens[NNODES + 1];
  int nw = sh_split((const unsigned char*)result.data(), result.size(), words, MAXLEN + 1, lens, NNODES + 1);
  __CPROVER_assert(nw != -1, "post C16: list contains no unquoted shell-special byte");
  __CPROVER_assert(nw == NNODES, "post C16: sh reads the list as exactly one word per name");
  if (nw == NNODES)
    for (int k = 0; k < NNODES; k++) {
      __CPROVER_assert(lens[k] == (size_t)LENS[k], "post C16: word k has the length of name k");
      if (lens[k] == (size_t)LENS[k])
        for (int i = 0; i < LENS[k]; i++)
          __CPROVER_assert(words[k * (MAXLEN + 1) + i] == orig[k][i], "post C16: word k equals name k, in order");
    }
  __CPROVER_assert(0, "canary: end of harness reachable");
}
'''


def check_shadow():
    h = slicer.read_src("src/graph.h")
    g = slicer.read_src("src/graph.cc")
    need = [
        (h, r'std::string\s+PathDecanonicalized\(\)\s*const\s*\{\s*return\s+PathDecanonicalized\(path_,\s*slash_bits_\);'),
        (h, r'static\s+std::string\s+PathDecanonicalized\(const\s+std::string&\s*path,\s*uint64_t\s+slash_bits\);'),
        (h, r'std::string\s+path_;'),
        (h, r'uint64_t\s+slash_bits_'),
        (g, r'enum\s+EscapeKind\s*\{\s*kShellEscape,\s*kDoNotEscape\s*\};'),
        (g, r'std::string\s+MakePathList\(const\s+Node\*\s*const\*\s*span,\s*size_t\s+size,\s*char\s+sep\)\s*const;'),
        (g, r'EscapeKind\s+escape_in_out_;'),
    ]
    for text, rx in need:
        if not re.search(rx, text):
            raise slicer.SliceError("shadow of Node/EdgeEnv out of date: /%s/ not found" % rx)


def _build_mpl(lens, mutant):
    def build(d):
        check_shadow()
        mpl = slicer.extract_function("src/graph.cc", SIG_MPL)
        dec = slicer.extract_function("src/graph.cc", SIG_DECANON)
        if mutant and mutant.target == "mpl":
            mpl = mutant(mpl)
        slices = util_slices(mutant) + "\n\n" + dec + "\n\n" + mpl
        # L16: `const Node* const*` -> `const vf_NodeCP*` with `typedef const Node* vf_NodeCP;` (same type; CBMC's
        # C++ front end mis-parses the `T* const*` declarator as `T** const`)
        mpl, n16 = re.subn(r'const\s+Node\s*\*\s*const\s*\*', 'const vf_NodeCP*', mpl)
        if n16 < 2:
            raise slicer.SliceError("lowering L16 expected to fire twice in MakePathList, fired %d" % n16)
        # L17: `const string& x = <call returning a temporary>;` -> `const string x = ...;` (CBMC does not implement
        # lifetime extension of temporaries bound to const references and reports the object dead)
        mpl, n17 = re.subn(r'const\s+string\s*&\s*path\s*=\s*\(\*i\)->PathDecanonicalized\(\);', 'const string path = (*i)->PathDecanonicalized();', mpl)
        if n17 != 1:
            raise slicer.SliceError("lowering L17 expected to fire once in MakePathList, fired %d" % n17)
        slices = util_slices(mutant) + "\n\n" + dec + "\n\n" + mpl
        hdr = mpl[:mpl.index('{')].strip()
        decl = hdr.replace("EdgeEnv::", "", 1) + ";"
        with open(os.path.join(d, "unit.cc"), "w") as fh:
            fh.write(MPL_UNIT % {"slices": slices, "mpl_decl": decl})
        n, mx = len(lens), max(lens)
        cap = sum(4 * l + 3 for l in lens) + 4
        steps = [gotocc_cpp(["unit.cc"], defines=["NNODES=%d" % n, "MAXLEN=%d" % mx, "LENLIST=%s" % ",".join(map(str, lens)),
                                                 "VF_STR_CAP=%d" % cap],
                            includes=[STD, os.path.join(VERIF, "stubs"), os.path.join(VERIF, "specs")])]
        return steps, cbmc_argv(unwind=cap + 3)
    return build


def jobs(tier, mutant=None):
    js = [
        Job("IsKnownShellSafeCharacter.contract", _build_safe(mutant, "harness"), "proof", timeout=300, canaries=0,
            functions=["IsKnownShellSafeCharacter"], backend="sat(minisat) via goto-instrument --dfcc", weight=0.1),
        Job("IsKnownShellSafeCharacter.reachability", _build_safe(mutant, "vacuity"), "proof", timeout=300, canaries=2,
            functions=["IsKnownShellSafeCharacter"], weight=0.1),
    ]
    for L in NAME_BOUNDS[tier]:
        j = Job("escape.L%d" % L, _build_esc(L, mutant, False), "bounded", timeout=3000, mem_gb=8,
                bound="every name of %d bytes without NUL/newline" % L,
                functions=["GetShellEscapedString", "StringNeedsShellEscaping", "IsKnownShellSafeCharacter"], weight=2.2 ** L)
        j.L = L
        js.append(j)
    j = Job("escape.prefix.L2", _build_esc(2, mutant, True), "bounded", timeout=600,
            bound="every name of 2 bytes appended to a non-empty *result", functions=["GetShellEscapedString"], weight=3)
    j.L = 2
    js.append(j)
    for lens in list_shapes(tier):
        j = Job("pathlist.%s" % "_".join(map(str, lens)), _build_mpl(lens, mutant), "bounded", timeout=3000, mem_gb=8,
                bound="every list of %d names with lengths %s, sep in {' ', newline}" % (len(lens), list(lens)),
                functions=["EdgeEnv::MakePathList", "Node::PathDecanonicalized", "GetShellEscapedString"],
                weight=2.2 ** sum(lens) * 2)
        j.lens = lens
        js.append(j)
    js += builderjobs.select(tier, ["B1", "B2"], r'\bC16\b', mutant)
    return js


def _m(target, old, new):
    f = subst(old, new)
    f.target = target
    return f


MUTANTS = [
    ("quote_sequence_dropped", _m("esc", "result->append(kEscapeSequence);", "")),
    ("span_restart_skips_quote", _m("esc", "span_begin = it;", "span_begin = it + 1;")),
    ("closing_quote_missing", _m("esc", "result->append(span_begin, input.end());\n  result->push_back(kQuote);", "result->append(span_begin, input.end());")),
    ("dollar_safe", _m("safe", "case '_':", "case '_':\n    case '$':")),
    ("space_safe", _m("safe", "case '+':", "case '+':\n    case ' ':")),
    ("needs_escaping_skips_last", _m("needs", "i < input.size()", "i + 1 < input.size()")),
    ("separator_missing_between_first_two", _m("mpl", "if (!result.empty())\n      result.push_back(sep);", "if (i == span + 2)\n      result.push_back(sep);")),
    ("empty_rspfile_not_written", _m("StartEdge", "if (!disk_interface_->WriteFile(rspfile, content, true))", "if (!content.empty() && !disk_interface_->WriteFile(rspfile, content, true))")),
    ("rspfile_written_after_start", _m("StartEdge", "  // start command computing and run it\n  if (!command_runner_->StartCommand(edge)) {\n    err->assign(\"command '\" + edge->EvaluateCommand() + \"' failed.\");\n    return false;\n  }\n", "  if (!command_runner_->StartCommand(edge)) {\n    return false;\n  }\n  if (!rspfile.empty()) disk_interface_->WriteFile(rspfile, edge->GetBinding(\"rspfile_content\"), true);\n")),
    ("rspfile_removed_on_failure", _m("FinishCommand", "  if (!result.success()) {\n    return plan_.EdgeFinished(edge, Plan::kEdgeFailed, err);", "  if (!result.success()) {\n    disk_interface_->RemoveFile(edge->GetUnescapedRspfile());\n    return plan_.EdgeFinished(edge, Plan::kEdgeFailed, err);")),
    ("list_not_escaped", _m("mpl", "if (escape_in_out_ == kShellEscape) {", "if (escape_in_out_ != kShellEscape) {")),
]

NATIVE = r'''
#include "util.h"
#include <stdio.h>
#include <stdlib.h>
#include <string>
#include <vector>
// argv[1..]: hex names.  Escapes each with the real GetShellEscapedString, joins with ' ', and asks the
// installed /bin/sh to split it; compares with the names.
int main(int argc, char** argv) {
  std::vector<std::string> names;
  for (int a = 1; a < argc; a++) {
    std::string in;
    for (const char* p = argv[a]; p[0] && p[1]; p += 2) { unsigned v; sscanf(p, "%2x", &v); in.push_back((char)v); }
    names.push_back(in);
  }
  std::string list;
  for (size_t k = 0; k < names.size(); k++) { if (!list.empty()) list.push_back(' '); GetShellEscapedString(names[k], &list); }
  std::string cmd = "printf '%s\\0' " + list;
  FILE* f = fopen("cmd.sh", "w"); fwrite(cmd.data(), 1, cmd.size(), f); fclose(f);
  FILE* p = popen("/bin/sh ./cmd.sh 2>&1", "r");
  std::string out; int ch; while ((ch = fgetc(p)) != EOF) out.push_back((char)ch);
  int rc = pclose(p);
  std::string want; for (auto& n : names) { want += n; want.push_back('\0'); }
  printf("escaped=");
  for (unsigned char c : list) printf("%02x", c);
  printf(" sh_rc=%d sh_words=", rc);
  for (unsigned char c : out) printf("%02x", c);
  printf(" ok=%d\n", (int)(out == want));
  return out == want ? 0 : 1;
}
'''


def replay(job, ob, vals, scratch):
    if job.name.startswith("IsKnown"):
        got = extract_inputs(vals, ("c", "ch"))
        return "c=%s" % {k: v[0] for k, v in got.items()}, None, {"note": "table obligation; value: %s" % {k: v[0] for k, v in got.items()}}
    names = []
    if hasattr(job, "L"):
        got = extract_inputs(vals, ("orig",))
        names.append(array_from(got, "orig", job.L))
    else:
        import re as _re
        got = extract_inputs(vals, ("orig",))
        for k, ln in enumerate(job.lens):
            arr = [0x61] * ln
            for lhs, (data, binary) in got.items():
                m = _re.match(r'^orig\[(\d+)l?\]\[(\d+)l?\]$', lhs)
                if m and int(m.group(1)) == k and int(m.group(2)) < ln and binary:
                    arr[int(m.group(2))] = int(binary, 2) & 0xFF
            names.append(arr)
    hexes = ["".join("%02x" % b for b in n) for n in names]
    d = os.path.join(scratch, "native_c16")
    os.makedirs(d, exist_ok=True)
    if not os.path.exists(os.path.join(d, "replay")):
        with open(os.path.join(d, "replay.cc"), "w") as f:
            f.write(NATIVE)
        src = os.path.join(slicer.REPO, "src")
        subprocess.run(["g++", "-std=c++17", "-O1", "-g", "-I", src, "replay.cc", src + "/util.cc", src + "/edit_distance.cc",
                        src + "/string_piece_util.cc", src + "/metrics.cc", "-o", "replay"], cwd=d, check=True, capture_output=True, timeout=300)
    p = subprocess.run([os.path.join(d, "replay")] + hexes, cwd=d, capture_output=True, timeout=60)
    out = (p.stdout + p.stderr).decode("utf-8", "replace")
    return "names=%s" % ",".join(hexes), p.returncode != 0, {
        "input_hex": hexes, "input_repr": [repr(bytes(n)) for n in names], "native_rc": p.returncode, "native_output": out[-2000:],
        "note": "native replay escapes with the real GetShellEscapedString and lets the installed /bin/sh split the text"}


def describe(tier):
    return {
        "functions": ["util.cc:IsKnownShellSafeCharacter", "util.cc:StringNeedsShellEscaping", "util.cc:GetShellEscapedString",
                      "graph.cc:EdgeEnv::MakePathList", "graph.cc:Node::PathDecanonicalized"],
        "checker_cmd": "goto-cc unit.c; goto-instrument --dfcc harness --enforce-contract IsKnownShellSafeCharacter; cbmc | goto-cc -std=c++11 unit.cc; cbmc --unwind N --unwinding-assertions",
        "trusted_base": ["cbmc 6.11.0, goto-instrument DFCC", "stubs/std/string model", "specs/sh_words.h (POSIX word splitting subset, oracle)",
                         "shadow Node{path_,slash_bits_} and EdgeEnv{escape_in_out_} (regex-checked against graph.h/graph.cc)"],
        "bounds": {t: "names of %s bytes; lists %s" % (NAME_BOUNDS[t], list_shapes(t)) for t in NAME_BOUNDS},
        "assumptions": [
            "BOUNDED: names up to %d bytes, lists as in bounds; longer names/lists are not decided" % max(NAME_BOUNDS[tier]),
            "names are non-empty and contain no NUL/newline (property statement; the manifest parser rejects empty paths)",
            "MakePathList is only called with sep ' ' or newline (both call sites in EdgeEnv::LookupVariable, read by hand)",
            "sh semantics are those of specs/sh_words.h; counterexamples are additionally replayed through the installed /bin/sh",
            "bytes >= 0x80 are ordinary characters to sh (POSIX locale)",
        ],
        "silent": ["posix_spawn of /bin/sh -c", "evaluation of rspfile_content (C12)"],
        "explanation": "DFCC contract proof for the safe-character table; contract harnesses (post from the property statement, oracle = POSIX word splitting) "
                       "on sliced GetShellEscapedString/MakePathList for every name/list within the bounds; bounded except the table.",
    }
