"""DepsLog::Recompact and IsDepsEntryLiveFor (sliced from /repo/src/deps_log.cc) against contract stubs of the writer side of DepsLog (under contract in C09's other runs)."""
import os
import re

from engine import slicer
from engine.core import Job, VERIF
from engine.routeb import gotocc_cpp, cbmc_argv, STD, unwindset_from_loops

PRELUDE = r'''
#define VF_EDGE_BINDINGS
#include "graph.h"
#include <utility>
using namespace std;
long nondet_long();
static bool vf_streq(const char* a, const char* b) { size_t i = 0; for (; i < 8; i++) { if (a[i] != b[i]) return false; if (!a[i]) return true; } return false; }
std::string Edge::GetBinding(const char* key) const { if (vf_streq(key, "deps")) return vf_deps; __CPROVER_assert(0, "model capacity: shadow Edge::GetBinding"); __CPROVER_assume(0); return std::string(); }
bool Edge::GetBindingBool(const char* key) const { (void)key; __CPROVER_assert(0, "model capacity: shadow Edge::GetBindingBool"); __CPROVER_assume(0); return false; }
#define METRIC_RECORD(x)
static int vf_unlinks = 0, vf_replaces = 0; static bool vf_replace_ok = true;
static void platformAwareUnlink(const char* p) { (void)p; vf_unlinks++; }
static bool ReplaceContent(const std::string& a, const std::string& b, std::string* err) { (void)a; (void)b; vf_replaces++; if (!vf_replace_ok) *err = "rename failed"; return vf_replace_ok; }
static int vf_rec_n = 0; static Node* vf_rec_node[4]; static long vf_rec_mtime[4]; static int vf_rec_count[4]; static Node** vf_rec_nodes[4]; static bool vf_rec_ok[4];
static bool vf_open_ok = true; static int vf_new_logs = 0, vf_closes = 0;
struct DepsLog {
  struct Deps { Deps(int64_t m, int n) : mtime(m), node_count(n), nodes(0) {} TimeStamp mtime; int node_count; Node** nodes; };
  DepsLog() { vf_new_logs++; }
  /* contract stubs of the writer side (under contract in C09's H2 runs): RecordDeps appends one record for `node` and assigns ids in the NEW log */
  bool OpenForWrite(const std::string& path, std::string* err) { (void)path; if (!vf_open_ok) *err = "open failed"; return vf_open_ok; }
  bool RecordDeps(Node* node, TimeStamp mtime, int node_count, Node** nodes) {
    __CPROVER_assert(vf_rec_n < 4, "model capacity: records"); __CPROVER_assume(vf_rec_n < 4);
    vf_rec_node[vf_rec_n] = node; vf_rec_mtime[vf_rec_n] = mtime; vf_rec_count[vf_rec_n] = node_count; vf_rec_nodes[vf_rec_n] = nodes;
    bool ok = vf_rec_ok[vf_rec_n]; vf_rec_n++;
    if (ok) { nodes_.push_back(node); deps_.push_back(new Deps(mtime, node_count)); }
    return ok;
  }
  void Close() { vf_closes++; }
  bool Recompact(const std::string& path, std::string* err);
  bool IsDepsEntryLiveFor(const Node* node);
  std::vector<Node*> nodes_; std::vector<Deps*> deps_;
};
/* ---- verbatim slices of /repo/src/deps_log.cc ---- */
%(funcs)s
/* ---- end ---- */
extern "C" void harness() {
  DepsLog* lp = new DepsLog(); DepsLog& log = *lp; vf_new_logs = 0;
  static Node n[3]; static Edge e[3]; static Node* depnodes[2];
  bool has_deps[3], has_edge[3], uses_deps[3]; long mt[3]; int cnt[3];
  DepsLog::Deps* old[3];
  for (int i = 0; i < 3; i++) {
    has_deps[i] = nondet_bool(); has_edge[i] = nondet_bool(); uses_deps[i] = nondet_bool();
    mt[i] = nondet_long(); __CPROVER_assume(mt[i] >= 0 && mt[i] < 1000000);
    cnt[i] = nondet_int(); __CPROVER_assume(cnt[i] >= 0 && cnt[i] <= 2);          /* a record with an EMPTY dependency list is a record too */
    n[i].id_ = i; n[i].in_edge_ = has_edge[i] ? &e[i] : (Edge*)0;
    if (uses_deps[i]) e[i].vf_deps = "gcc";
    log.nodes_.push_back(&n[i]);
    old[i] = 0;
    if (has_deps[i]) { old[i] = new DepsLog::Deps(mt[i], cnt[i]); old[i]->nodes = depnodes; }
    log.deps_.push_back(old[i]);
  }
  for (int i = 0; i < 4; i++) vf_rec_ok[i] = nondet_bool();
  vf_open_ok = nondet_bool(); vf_replace_ok = nondet_bool();
  std::string err;
  bool ok = log.Recompact(std::string(".ninja_deps"), &err);
  int expect = 0; bool rec_failed = false;
  if (vf_open_ok) {
    for (int i = 0; i < 3; i++) {
      bool live = has_deps[i] && has_edge[i] && uses_deps[i];
      int hits = 0, at = -1;
      for (int k = 0; k < 4; k++) if (k < vf_rec_n && vf_rec_node[k] == &n[i]) { hits++; at = k; }
      if (!rec_failed) {
        if (live) {
          __CPROVER_assert(hits == 1, "post C09: recompaction keeps the record of every output that still has a build statement using deps - also a record with an empty dependency list");
          if (hits == 1) __CPROVER_assert(vf_rec_mtime[at] == mt[i] && vf_rec_count[at] == cnt[i] && vf_rec_nodes[at] == depnodes, "post C09: ... with the recorded mtime and exactly the recorded dependencies");
          if (at >= 0 && !vf_rec_ok[at]) rec_failed = true;
          expect++;
        } else {
          __CPROVER_assert(hits == 0, "post C09: recompaction drops only entries whose output no longer has a build statement using deps (and leaves out nodes that never had a record)");
        }
      }
    }
    if (!rec_failed) __CPROVER_assert(vf_rec_n == expect, "post C09: nothing else is written");
    __CPROVER_assert(ok == (!rec_failed && vf_replace_ok), "post C09: recompaction succeeds exactly if every record could be written and the log was replaced");
    __CPROVER_assert(vf_replaces == (rec_failed ? 0 : 1), "post C09: the log is replaced once, by the complete new file, and not at all after a write error");
    __CPROVER_assert(vf_unlinks == 1, "post C09: a left-over temporary file of an earlier attempt is removed first");
    if (ok) {
      __CPROVER_assert(log.nodes_.size() == (size_t)expect && log.deps_.size() == (size_t)expect, "post C09: the in-memory tables are those of the new log");
      for (int i = 0; i < 3; i++) if (!(has_deps[i] && has_edge[i] && uses_deps[i])) __CPROVER_assert(n[i].id_ == -1, "post C09: a dropped node has no id in the new log");
    }
  } else {
    __CPROVER_assert(!ok && vf_rec_n == 0 && vf_replaces == 0 && !err.empty(), "post C09: if the new log cannot be opened nothing is changed");
  }
  if (ok && expect == 2) __CPROVER_assert(0, "canary: two live records");
  if (vf_open_ok && rec_failed) __CPROVER_assert(0, "canary: write error");
  __CPROVER_assert(0, "canary: end of harness reachable");
}
'''


def _build(mutant):
    def build(d):
        h = slicer.read_src("src/deps_log.h")
        for rx in [r'std::vector<Node\*>\s+nodes_;', r'std::vector<Deps\*>\s+deps_;', r'TimeStamp\s+mtime;', r'int\s+node_count;', r'Node\*\*\s+nodes;',
                   r'bool\s+RecordDeps\(Node\*\s+node,\s*TimeStamp\s+mtime,\s*int\s+node_count,']:
            if not re.search(rx, h):
                raise slicer.SliceError("shadow DepsLog out of date: /%s/" % rx)
        parts = []
        for name, sig in (("Recompact", r'bool\s+DepsLog::Recompact\s*\('), ("IsDepsEntryLiveFor", r'bool\s+DepsLog::IsDepsEntryLiveFor\s*\(')):
            f = slicer.extract_function("src/deps_log.cc", sig)
            if mutant and getattr(mutant, "target", None) == name:
                f = mutant(f)
            parts.append(f)
        with open(os.path.join(d, "unit.cc"), "w") as fo:
            fo.write(PRELUDE % {"funcs": "\n\n".join(parts)})
        steps = [gotocc_cpp(["unit.cc"], defines=["VF_STR_CAP=24", "VF_VEC_CAP=4", "VF_MAP_CAP=3", "VF_SET_CAP=3"],
                            includes=[os.path.join(VERIF, "stubs", "ninja_plan"), os.path.join(VERIF, "stubs", "cstring"), STD, os.path.join(VERIF, "stubs")])]

        def post(dd, av):
            us, _ = unwindset_from_loops(dd, "a.gb", [("vf_s_", 28), ("operator+", 28), ("append", 28), ("harness.", 6)])
            return av + (["--unwindset", us] if us else [])
        return steps, cbmc_argv(unwind=10, object_bits=11), post
    return build


def job(mutant=None):
    j = Job("DepsLog.Recompact.contract", _build(mutant), "bounded", timeout=1200, canaries=3, weight=20.0,
            bound="a log with 3 nodes; per node: has a record or not (0-2 dependencies, incl. an empty list), has a producing statement or not, that statement uses deps or not; every write / open / replace failure symbolic",
            functions=["deps_log.cc:DepsLog::Recompact", "deps_log.cc:DepsLog::IsDepsEntryLiveFor"])
    j.strict_bodies = True
    return j
