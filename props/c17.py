"""C17 (re-scan clause after a dyndep load, modular): Plan::UnmarkDependents (props/planunit.py)."""
from engine.selftest import subst
from props import planjobs, scanjobs

ID = "C17"
USES_CPP = True

MANIFEST = {
    "level_claimed": {
        "category": "other",
        "text": "Three clauses, modular and bounded. (1) DependencyScan::VerifyDAG (real text): reaching a statement that is on the visit stack is reported as a 'dependency cycle' whose message "
                "starts and ends at the node that closed it and lists exactly the statements on the path, in order (given the DFS invariant of the stack); a statement that is not on the stack is never "
                "reported (acyclic graphs are not rejected). (2) DependencyScan::RecomputeNodeDirty (real text, callees by contract): a statement is marked as on-the-stack and pushed while its inputs are "
                "visited and marked finished and popped afterwards, so that (1) sees exactly the current path. (3) When dyndep information is loaded during the build, Plan::UnmarkDependents (real text, recursion by contract) removes the "
                "'already scanned' mark of every planned consumer of the dyndep node and collects ALL outputs of each such edge for the re-scan, so that the re-scan - which "
                "carries the cycle check - reaches every statement downstream of the new information, through every output. NOT decided: DependencyScan::VerifyDAG / "
                "RecomputeNodeDirty themselves (C++17, outside the front end), cycles closed through depfiles or the deps log, that only real cycles are reported, termination.",
        "design_ref": "DESIGN.md 5 C17",
    },
    "level_note": "trusted: " + "; ".join(planjobs.PLAN_TRUST),
    "technique": "contract-based modular verification with CBMC: real Plan::UnmarkDependents against its own contract for the recursive calls; bounded neighbourhood size",
}

KEYS = ["M7", "M9"]


def jobs(tier, mutant=None):
    return planjobs.select(tier, KEYS, r'\bC17\b', mutant) + scanjobs.select(tier, ["S1", "S2", "S3"], r'\bC17\b', mutant)


def _m(target, old, new):
    f = subst(old, new)
    f.target = target
    return f


MUTANTS = [
    ("first_output_only", _m("UnmarkDependents", "o != edge->outputs_.end(); ++o) {", "o != edge->outputs_.begin() + 1; ++o) {")),
    ("explicit_outputs_only", _m("UnmarkDependents", "o != edge->outputs_.end(); ++o) {", "o != edge->outputs_.end() - edge->implicit_outs_; ++o) {")),
    ("mark_not_cleared", _m("UnmarkDependents", "edge->mark_ = Edge::VisitNone;", ";")),
    ("cycle_reported_from_stack_bottom", _m("VerifyDAG", "  *start = node;\n", "  start = stack->begin();\n  *start = node;\n")),
    ("finished_edges_reported_as_cycles", _m("VerifyDAG", "if (edge->mark_ != Edge::VisitInStack)", "if (edge->mark_ == Edge::VisitNone)")),
    ("edge_not_marked_in_stack", _m("RecomputeNodeDirty", "  edge->mark_ = Edge::VisitInStack;\n", "")),
    ("dependents_not_rescanned", _m("RefreshDyndepDependents", "    if (!scan->RecomputeDirty(n, &validation_nodes, err))\n      return false;", "    if (false)\n      return false;")),
    ("stops_at_first_unplanned", _m("UnmarkDependents", "    if (want_e == want_.end())\n      continue;\n", "    if (want_e == want_.end())\n      break;\n")),
]


def replay(job, ob, vals, scratch):
    keep = [(lhs, data) for lhs, data, _b, fn, _l in vals if fn == "harness" and lhs and not lhs.startswith("return_value")]
    return "state: " + " ".join("%s=%s" % kv for kv in keep[-30:]), None, {
        "counterexample_state": ["%s=%s" % kv for kv in keep[-80:]],
        "note": "modular contract obligation: the counterexample is a plan state at one call, not a manifest; no native replay is built for it"}


def describe(tier):
    return {
        "functions": ["build.cc:Plan::UnmarkDependents", "build.h:struct Plan", "graph.cc:DependencyScan::VerifyDAG", "graph.cc:DependencyScan::RecomputeNodeDirty"],
        "checker_cmd": "goto-cc -std=c++11 unit.cc (slices + stubs + harness); cbmc a.gb --unwind N --unwinding-assertions + checks",
        "trusted_base": planjobs.PLAN_TRUST + scanjobs.TRUST,
        "bounds": {t: "a dyndep node with two consumers (2 outputs, one possibly implicit / 1 output); plan membership enumerated, marks symbolic" for t in ("quick", "thorough")},
        "assumptions": planjobs.PLAN_ASSUME + ["DependencyScan::RecomputeDirty re-visits exactly unmarked edges and runs VerifyDAG on them: by inspection (graph.cc, not under contract)"],
        "silent": ["that depfile / deps-log dependencies are inputs when the check runs (RecomputeEdgesInputsDirty, loaders)", "no command of a cycle runs", "never hangs / overflows the stack"],
        "explanation": "Postcondition of UnmarkDependents: closure of the re-scan set under 'planned consumer' and 'any output'.",
    }
