"""C03 (restat-pruning and frame clauses, modular): Plan::CleanNode and the frame of Plan::EdgeFinished (props/planunit.py)."""
from engine.selftest import subst
from props import planjobs, builderjobs, outdirtyjobs, scanjobs

ID = "C03"
USES_CPP = True

MANIFEST = {
    "level_claimed": {
        "category": "other",
        "text": "Two clauses, modular and bounded in neighbourhood size: (1) contract of Plan::CleanNode (real text; recursion and DependencyScan::RecomputeOutputsDirty by contract): after a restat "
                "command left an output untouched, a dependent edge is dropped from the plan exactly when it was wanted, its deps are known, every NON-order-only input is clean and its "
                "outputs are up to date against the newest such input; then - and only then - its outputs are cleaned in turn; a dirty order-only input alone never keeps it; "
                "(2) frame of Plan::EdgeFinished: finishing a command never clears a dirty flag (a sibling input rebuilt earlier in the same build keeps its dependents wanted). "
                "(3) Builder::FinishCommand (real text, callees by contract) calls CleanNode exactly for the outputs a successful restat command left with the mtime they had before, never after a failure. "
                "(4) RecomputeOutputsDirtyCache (real text): the per-statement rule, including 'changing only the command line of a generator rule does not re-run it' and restat statements being judged by the recorded mtime. "
                "(5) DependencyScan::RecomputeEdgesInputsDirty (real text): a statement becomes dirty exactly if a NON-order-only input is dirty - 'a change to an order-only input alone never re-runs its dependents'. "
                "NOT decided: which edges the initial scan marks dirty (RecomputeNodeDirty, C++17), the generator-rule exception, 'exactly the affected commands' as a whole-build statement.",
        "design_ref": "DESIGN.md 5 C03",
    },
    "level_note": "trusted: " + "; ".join(planjobs.PLAN_TRUST),
    "technique": "contract-based modular verification with CBMC: real Plan::CleanNode / EdgeFinished against callee contract stubs, recursion by contract; bounded neighbourhood sizes",
}

KEYS = ["M6", "M3"]


def jobs(tier, mutant=None):
    return planjobs.select(tier, KEYS, r'\bC03\b', mutant) + builderjobs.select(tier, ["B2"], r'\bC03\b', mutant) + outdirtyjobs.select(tier, ["O1"], r'\bC03\b', mutant) + scanjobs.select(tier, ["S3"], r'\bC03\b', mutant)


def _m(target, old, new):
    f = subst(old, new)
    f.target = target
    return f


MUTANTS = [
    ("order_only_inputs_block_pruning", _m("CleanNode", "end = (*oe)->inputs_.end() - (*oe)->order_only_deps_;", "end = (*oe)->inputs_.end();")),
    ("pruned_without_checking_outputs", _m("CleanNode", "if (!outputs_dirty) {", "if (true) {")),
    ("outputs_marked_clean_on_finish", _m("EdgeFinished", "    if (!NodeFinished(*o, err))", "    (*o)->set_dirty(false);\n    if (!NodeFinished(*o, err))")),
    ("oldest_input_compared", _m("CleanNode", "(*i)->mtime() > most_recent_input->mtime()", "(*i)->mtime() < most_recent_input->mtime()")),
    ("every_restat_output_cleaned", _m("FinishCommand", "if ((*o)->mtime() == new_mtime && restat) {", "if (restat) {")),
    ("non_restat_outputs_cleaned", _m("FinishCommand", "if ((*o)->mtime() == new_mtime && restat) {", "if ((*o)->mtime() == new_mtime) {")),
    ("generator_command_change_rebuilds", _m("RecomputeOutputDirty", "IF_FIRSTRUN (!generator_ && commandHash_() != entry->command_hash) {", "IF_FIRSTRUN (commandHash_() != entry->command_hash) {")),
    ("order_only_input_makes_dirty", _m("RecomputeEdgesInputsDirty", "if (!edge->is_order_only(i - edge->inputs_.cbegin())) {", "if (true) {")),
    ("deps_missing_ignored", _m("CleanNode", "    if ((*oe)->deps_missing_)\n      continue;\n", "")),
]


def replay(job, ob, vals, scratch):
    keep = [(lhs, data) for lhs, data, _b, fn, _l in vals if fn == "harness" and lhs and not lhs.startswith("return_value")]
    return "state: " + " ".join("%s=%s" % kv for kv in keep[-30:]), None, {
        "counterexample_state": ["%s=%s" % kv for kv in keep[-80:]],
        "note": "modular contract obligation: the counterexample is a plan state at one call, not a manifest; no native replay is built for it"}


def describe(tier):
    return {
        "functions": ["build.cc:Plan::CleanNode", "build.cc:Plan::EdgeFinished (frame)", "build.h:struct Plan", "build.cc:Builder::FinishCommand (restat clause)"],
        "checker_cmd": "goto-cc -std=c++11 unit.cc (slices + stubs + harness); cbmc a.gb --unwind N --unwinding-assertions + checks",
        "trusted_base": planjobs.PLAN_TRUST + builderjobs.TRUST + outdirtyjobs.TRUST,
        "bounds": {t: "a node with 2 consumers; the planned consumer has 3 inputs (0-2 order-only) and 2 outputs; all flags, mtimes and the scan verdict symbolic" for t in ("quick", "thorough")},
        "assumptions": planjobs.PLAN_ASSUME + ["DependencyScan::RecomputeOutputsDirty is a contract stub (its verdict is symbolic); Builder::FinishCommand calls CleanNode exactly for restat outputs whose mtime did not change: by inspection"],
        "silent": ["initial dirty computation (order-only change alone, command-line change, generator exception)", "exactly the affected commands run, as a whole-build statement"],
        "explanation": "Postcondition of CleanNode stated from the property's restat clause over the plan's abstract state; frame condition of EdgeFinished.",
    }
