"""C15 - depfiles written in the GCC/Clang dialect are read back as the same names.
Unit: the whole real /repo/src/depfile_parser.cc (unmodified, Route B), explored path by path (--paths lifo: the re2c DFA
defeats path merging)."""
import os
import subprocess

from engine import slicer
from engine.core import Job, VERIF, extract_inputs, array_from
from engine.routeb import gotocc_cpp, CHECKS, STD, mirrored_string_piece
from engine.selftest import subst

ID = "C15"
USES_CPP = True   # adds the front-end assumption canaries (engine/frontend.py) to every run of this check

MANIFEST = {
    "level_claimed": {
        "category": "other",
        "text": "Round trip on the real parser, bounded: for every target/dependency names of bounded total length over the bytes the parser treats as "
                "file-name text plus blank, '#', '$', backslash and ':', encoded by an independent model of the GCC/Clang writer in five layouts (one line, "
                "continuation per name, two rules, CRLF, trailing blank), the unmodified DepfileParser::Parse accepts and returns exactly those names, "
                "each dependency once, targets and dependencies apart; plus the two rejection clauses. Names containing other printable bytes "
                "(* < > | ; ^ ` ...) or a backslash before '$' are known findings. SMALL BOUND (<= 3/4 symbolic name bytes): interactions of several "
                "escapes in one name beyond that are not decided.",
        "design_ref": "DESIGN.md 5 C15",
    },
    "level_note": "trusted: cbmc 6.11 C++ front end (--paths lifo), model std::string/vector/algorithm, byte-loop memmove/memset, specs/depfile_enc.h (writer model, the oracle); "
                  "the checked-in re2c output depfile_parser.cc is what is verified (re2c itself is not installed, the build compiles this file)",
    "technique": "contract-based verification with CBMC: assume/assert contract harness (post: parse(enc(names)) == names) on the unmodified file; bounded, path-by-path symbolic execution",
}


# ------------------------------------------------------------------ round-trip harness generator
# A *cell* fixes, for every name byte, its class: S blank, H '#', D '$', B backslash, C ':', P a byte of the parser's file-name
# class (symbolic within the class), O a printable byte outside it (symbolic).  The cells partition the name space exactly; within
# a cell the encoded text has a concrete layout and only the P/O bytes are symbolic, so the path-by-path exploration of the re2c
# scanner forks on those bytes only.  The text is produced by enc_py below, the Python twin of specs/depfile_enc.h (the oracle).
CLASSES = "SHDBCP"
CONST = {"S": 32, "H": 35, "D": 36, "B": 92, "C": 58, "K": 107}    # K: the constant letter 'k' (used where a symbolic byte would only multiply paths)


def name_ok(cls):
    return len(cls) > 0 and cls[-1] not in "BC"


def enc_py(cls, sym):
    """cls: class string; sym: list of C expressions for the P/O bytes (in order).  Returns the list of C byte expressions written."""
    out, k = [], 0
    exprs = []
    for c in cls:
        if c in CONST:
            exprs.append(str(CONST[c]))
        else:
            exprs.append(sym[k]); k += 1
    for i, c in enumerate(cls):
        if c == "S":
            q = i
            while q > 0 and cls[q - 1] == "B":
                out.append("92"); q -= 1
            out += ["92", "32"]
        elif c == "H":
            out += ["92", "35"]
        elif c == "D":
            out += ["36", "36"]
        elif c == "C":
            out += ["92", "58"]
        else:
            out.append(exprs[i])
    return out, exprs


def gen_harness(layout, tcls, acls, bcls):
    syms, decl = [], []

    def mk(prefix, cls):
        names = []
        for i, c in enumerate(cls):
            if c in "PO":
                v = "%s%d" % (prefix, i)
                names.append(v)
                decl.append("  unsigned char %s = nondet_uchar();" % v)
                decl.append("  __CPROVER_assume(%s(%s));" % ("vf_plain" if c == "P" else "vf_other", v))
        return names
    ts, as_, bs = mk("t", tcls), mk("a", acls), mk("b", bcls)
    tenc, texp = enc_py(tcls, ts)
    aenc, aexp = enc_py(acls, as_)
    benc, bexp = enc_py(bcls, bs) if bcls else ([], [])
    decl_done = list(decl)
    lit = lambda s_: [str(ord(ch)) for ch in s_]
    text = tenc + lit(":")
    if layout == 2:
        text += lit(" \\\n ") + aenc
        if bcls:
            text += lit(" \\\n ") + benc
        text += lit("\n")
    elif layout == 3:
        text += lit(" ") + aenc + lit("\n")
        if bcls:
            text += tenc + lit(": ") + benc + lit("\n")
    else:
        text += lit(" ") + aenc
        if bcls:
            text += lit(" ") + benc
        text += {4: lit("\r\n"), 5: lit(" \n")}.get(layout, lit("\n"))
    body = []
    body += decl
    if layout == 3 and bcls:
        # the target is written again as the head of the second rule; GCC/Clang never list a target among its own dependencies, and a
        # dependency that reappears as a target with dependencies is exactly what the rejection clause forbids
        if len(texp) == len(aexp):
            body.append("  __CPROVER_assume(!(%s));" % " & ".join("((%s) == (%s))" % (x, y) for x, y in zip(texp, aexp)))
    body.append("  std::string content;")
    for e in text:
        body.append("  content.push_back((char)(%s));" % e)
    body.append("  for (size_t i = content.size() + 1; i <= VF_STR_CAP; i++) content.d_[i] = 'a';   /* poisoned slack behind the NUL sentinel */")

    def arr(name, exps):
        return "  unsigned char %s[%d] = {%s};" % (name, max(len(exps), 1), ", ".join("(unsigned char)(%s)" % e for e in exps) or "0")
    body.append(arr("tn", texp)); body.append(arr("an", aexp)); body.append(arr("bn", bexp))
    return HARNESS_T % {"body": "\n".join(body), "TL": len(tcls), "AL": len(acls), "BL": len(bcls), "textlen": len(text)}


HARNESS_T = r"""
#include "depfile_parser.h"
unsigned char nondet_uchar();
/* branch-free class predicates (a short-circuit || would fork the path-by-path exploration) */
static bool vf_plain(unsigned char c) {
  return ((c >= 'a') & (c <= 'z')) | ((c >= 'A') & (c <= 'Z')) | ((c >= '0') & (c <= '9')) | (c >= 0x80) |
         (c == '+') | (c == '?') | (c == '"') | (c == '\'') | (c == '&') | (c == ',') | (c == '/') | (c == '_') | (c == '.') | (c == '~') |
         (c == '(') | (c == ')') | (c == '}') | (c == '{') | (c == '%%') | (c == '=') | (c == '@') | (c == '[') | (c == ']') | (c == '!') | (c == '-');
}
static bool vf_other(unsigned char c) {   /* printable ASCII that is neither file-name text for the parser nor one of the escaped bytes */
  return (c > 32) & (c < 127) & !vf_plain(c) & (c != '#') & (c != '$') & (c != '\\') & (c != ':');
}
static bool vf_piece_is(const StringPiece& p, const unsigned char* s, size_t n) {
  if (p.len_ != n) return false;
  bool eq = true;
  for (size_t i = 0; i < n; i++) eq = eq & ((unsigned char)p.str_[i] == s[i]);
  return eq;
}
extern "C" void harness() {
%(body)s
  const size_t TL = %(TL)d, AL = %(AL)d, BL = %(BL)d;
  DepfileParser p;
  std::string err;
  bool ok = p.Parse(&content, &err);
  __CPROVER_assert(ok, "post C15: a depfile in the GCC/Clang dialect is accepted");
  if (ok) {
    __CPROVER_assert(p.outs_.size() == 1 && vf_piece_is(p.outs_[0], tn, TL), "post C15: exactly the target is read back, kept apart from the dependencies");
    bool dup = false;
    if (BL > 0 && AL == BL) { dup = true; for (size_t i = 0; i < AL; i++) dup = dup & (an[i] == bn[i]); }
    size_t want = (BL == 0 || dup) ? 1 : 2;
    __CPROVER_assert(p.ins_.size() == want, "post C15: exactly the dependencies are read back, each once");
    if (p.ins_.size() == want) {
      __CPROVER_assert(vf_piece_is(p.ins_[0], an, AL), "post C15: first dependency is read back as the same name");
      if (want == 2) __CPROVER_assert(vf_piece_is(p.ins_[1], bn, BL), "post C15: second dependency is read back as the same name");
    }
    for (size_t k = 0; k < p.ins_.size(); k++)
      __CPROVER_assert(p.ins_[k].str_ >= content.data() && p.ins_[k].str_ + p.ins_[k].len_ <= content.data() + content.size(),
                       "post C15: every piece points into the content buffer");
  }
  __CPROVER_assert(0, "canary: end of harness reachable");
}
"""

REJECT = r'''
#include "depfile_parser.h"
unsigned char nondet_uchar();
extern "C" void harness() {
  /* rejection clauses of C15 on arbitrary short texts */
  unsigned char c[L + 1];
  std::string content;
  bool has_colon = false, has_name_char = false, only_name_and_blank = true;
  for (int i = 0; i < L; i++) {
    c[i] = nondet_uchar();
    __CPROVER_assume(c[i] != 0);
    bool nm = ((c[i] >= 'a') & (c[i] <= 'z')) | ((c[i] >= '0') & (c[i] <= '9')) | (c[i] == '/') | (c[i] == '.') | (c[i] == '_');
    has_colon = has_colon | (c[i] == ':');
    has_name_char = has_name_char | nm;
    only_name_and_blank = only_name_and_blank & (nm | (c[i] == ' ') | (c[i] == '\n'));
    content.push_back((char)c[i]);
  }
  DepfileParser p;
  std::string err;
  bool ok = p.Parse(&content, &err);
  if (!has_colon && has_name_char && only_name_and_blank)
    __CPROVER_assert(!ok && !err.empty(), "post C15: a non-empty depfile without ':' is rejected with a message");
  __CPROVER_assert(ok || !err.empty(), "post C15: rejection carries a message");
  __CPROVER_assert(0, "canary: end of harness reachable");
}
'''

POISON = r'''
#include "depfile_parser.h"
unsigned char nondet_uchar();
extern "C" void harness() {
  /* "a dependency reappearing as a target that has its own dependencies is rejected":  x: y \n y: z \n */
  unsigned char x = 'x', y = nondet_uchar(), z = 'z';
  __CPROVER_assume((y >= 'a') & (y <= 'w'));
  std::string content;
  content.push_back((char)x); content.push_back(':'); content.push_back(' '); content.push_back((char)y); content.push_back('\n');
  content.push_back((char)y); content.push_back(':'); content.push_back(' '); content.push_back((char)z); content.push_back('\n');
  DepfileParser p;
  std::string err;
  bool ok = p.Parse(&content, &err);
  __CPROVER_assert(!ok && !err.empty(), "post C15: a dependency reappearing as a target that has its own dependencies is rejected");
  {
    /* same, with a further (new) target after the offending one in the second rule:  x: y \n y w: z \n */
    std::string c2;
    c2.push_back('x'); c2.push_back(':'); c2.push_back(' '); c2.push_back('y'); c2.push_back('\n');
    c2.push_back('y'); c2.push_back(' '); c2.push_back('w'); c2.push_back(':'); c2.push_back(' '); c2.push_back('z'); c2.push_back('\n');
    DepfileParser p2;
    std::string err2;
    bool ok2 = p2.Parse(&c2, &err2);
    __CPROVER_assert(!ok2 && !err2.empty(), "post C15: ... also when another target follows it in the same rule");
  }
  __CPROVER_assert(0, "canary: end of harness reachable");
}
'''


def _common(d, text, defines, unwind, mutant):
    src = slicer.read_src("src/depfile_parser.cc")
    if mutant:
        src = mutant(src)
    with open(os.path.join(d, "depfile_parser.cc"), "w") as f:
        f.write(src)
    # mirror the real headers so that quoted includes resolve here first (then the model <string>/<vector>/<algorithm>)
    for h in ("depfile_parser.h", "string_piece.h", "util.h"):
        with open(os.path.join(d, h), "w") as f:
            f.write(mirrored_string_piece() if h == "string_piece.h" else slicer.read_src("src/" + h))
    with open(os.path.join(d, "harness.cc"), "w") as f:
        f.write(text)
    steps = [gotocc_cpp(["depfile_parser.cc", "harness.cc"], defines=defines + ["VF_STR_CAP=50", "VF_VEC_CAP=5"],
                        includes=[d, os.path.join(VERIF, "stubs", "cstring"), STD, os.path.join(VERIF, "stubs"), os.path.join(VERIF, "specs")])]
    argv = ["cbmc", "a.gb"] + CHECKS + ["--paths", "lifo", "--unwind", str(unwind), "--unwinding-assertions"]
    return steps, argv


def _build_rt(layout, tcls, acls, bcls, mutant):
    def build(d):
        text = gen_harness(layout, tcls, acls, bcls)
        return _common(d, text, [], 70, mutant)
    return build


def _build_simple(text, defs, mutant):
    def build(d):
        return _common(d, text, defs, 60, mutant)
    return build


def words(alphabet, n):
    import itertools
    return ["".join(w) for w in itertools.product(alphabet, repeat=n)]


def cells(tier):
    """(target classes, dep1 classes, dep2 classes)"""
    out = []
    for n in ((1, 2) if tier == "quick" else (1, 2, 3)):
        for w in words(CLASSES, n):
            if name_ok(w):
                out.append(("P", w, ""))
    out.append(("P", "P", "P") if tier == "thorough" else ("K", "P", "P"))
    out.append(("K", "PS", "P"))
    if tier == "thorough":
        for w in words(CLASSES, 2):
            if name_ok(w):
                out.append((w, "P", ""))
                out.append(("P", "P", w))
    # fully concrete cells (no P): every name of 3 (quick) / 4 (thorough) escaped-class bytes; no symbolic byte, so each run is one path
    for w in words("SHDBC", 3 if tier == "quick" else 4):
        if name_ok(w) and "BD" not in w:
            out.append(("K", w, ""))
    # classes that are known findings: one cell each, identified by the O / BD in the run name
    out.append(("P", "O", ""))
    out.append(("P", "PO", ""))
    out.append(("P", "BDP", ""))
    return out


def is_known_class(t, a, b):
    return any("O" in w or "BD" in w for w in (t, a, b))


LAYOUTS = {"quick": [1, 2, 3, 4, 5], "thorough": [1, 2, 3, 4, 5]}


def jobs(tier, mutant=None):
    js = []
    seen = set()
    for (t, a, b) in cells(tier):
        for lay in LAYOUTS[tier]:
            if lay == 3 and not b:
                continue            # layout 3 (two rules) needs a second dependency
            if lay == 3 and t == "P" and a == "P" and b == "P":
                t = "K"             # the target is written twice in layout 3: keep it constant there
            if is_known_class(t, a, b) and lay != 1:
                continue
            if t == "K" and not b and "P" not in a and lay not in (1, 2):
                continue            # concrete cells: two layouts are enough
            key = (lay, t, a, b)
            if key in seen:
                continue
            seen.add(key)
            nsym = sum(w.count("P") + w.count("O") for w in (t, a, b))
            j = Job("depfile.roundtrip.layout%d.t=%s.a=%s.b=%s" % (lay, t, a, b or "-"), _build_rt(lay, t, a, b, mutant), "bounded",
                    timeout=3400, mem_gb=8,
                    bound="names with byte classes target=%s dep1=%s dep2=%s (S blank, H #, D $, B backslash, C colon, P any file-name byte, O other printable), layout %d" % (t, a, b or "-", lay),
                    functions=["DepfileParser::Parse"], backend="sat(minisat), --paths lifo", weight=10.0 ** nsym)
            j.cell = (t, a, b)
            js.append(j)
    for L in ([1, 2] if tier == "quick" else [1, 2, 3, 4]):
        js.append(Job("depfile.reject.no_colon.L%d" % L, _build_simple(REJECT % (), ["L=%d" % L], mutant), "bounded", timeout=3400,
                      bound="every text of %d non-NUL bytes" % L, functions=["DepfileParser::Parse"], backend="sat(minisat), --paths lifo", weight=18.0 ** L))
    js.append(Job("depfile.reject.input_with_inputs", _build_simple(POISON % (), [], mutant), "bounded", timeout=1800,
                  bound="x: y / y: z with y any letter a..w", functions=["DepfileParser::Parse"], backend="sat(minisat), --paths lifo", weight=5))
    return js


MUTANTS = [
    ("hash_not_deescaped", subst("*out++ = '#';", "*out++ = '\\\\';")),
    ("dollar_kept_doubled", subst("// De-escape dollar character.\n        *out++ = '$';", "// De-escape dollar character.\n        *out++ = '$'; *out++ = '$';")),
    ("odd_backslashes_space_count", subst("int n = len / 2 - 1;", "int n = len / 2;")),
    ("poison_flag_never_set", subst("poisoned_input = true;", "poisoned_input = false;")),
    ("missing_colon_accepted", subst("if (!have_target && !is_empty) {", "if (false) {")),
    ("duplicate_inputs_kept", subst("if (pos == ins_.end()) {", "if (true) {")),
]

NATIVE = r'''
#include "depfile_parser.h"
#include <stdio.h>
#include <string>
// argv[1] = hex of the depfile text.  Prints what the real parser returns.
int main(int argc, char** argv) {
  std::string in;
  for (const char* p = argv[1]; p[0] && p[1]; p += 2) { unsigned v; sscanf(p, "%2x", &v); in.push_back((char)v); }
  DepfileParser p; std::string err; std::string content = in;
  bool ok = p.Parse(&content, &err);
  printf("ok=%d err='%s' outs=", (int)ok, err.c_str());
  for (auto& o : p.outs_) { printf("["); for (size_t i = 0; i < o.len_; i++) printf("%02x", (unsigned char)o.str_[i]); printf("]"); }
  printf(" ins=");
  for (auto& o : p.ins_) { printf("["); for (size_t i = 0; i < o.len_; i++) printf("%02x", (unsigned char)o.str_[i]); printf("]"); }
  printf("\n");
  return 0;
}
'''


def replay(job, ob, vals, scratch):
    got = extract_inputs(vals, ("content", "c", "x", "y", "z") + tuple("%s%d" % (p_, i) for p_ in "tab" for i in range(4)))
    syms = {k: v[0] for k, v in got.items() if "[" not in k}
    cell = getattr(job, "cell", None)
    sig = "cell=%s %s" % (cell, " ".join("%s=%s" % kv for kv in sorted(syms.items())))
    return sig, None, {"cell": cell, "symbolic_bytes": syms,
                       "note": "the depfile text is enc(names) for the run's byte classes with these values for the symbolic bytes; native driver: props/c15.py NATIVE"}


def describe(tier):
    return {
        "functions": ["depfile_parser.cc:DepfileParser::Parse (whole unmodified file, re2c output as checked in)"],
        "checker_cmd": "goto-cc -std=c++11 depfile_parser.cc harness.cc; cbmc --paths lifo --unwind 60 --unwinding-assertions + checks",
        "trusted_base": ["cbmc 6.11.0 C++ front end, path-by-path symbolic execution", "stubs/std/{string,vector,algorithm}", "stubs/libc_mem.h (memmove/memset/memcmp byte loops)",
                         "specs/depfile_enc.h (model of the GCC/Clang writer: the oracle)"],
        "bounds": {t: "%d class cells x layouts %s" % (len(cells(t)), LAYOUTS[t]) for t in LAYOUTS},
        "assumptions": [
            "SMALL BOUND: dependency names of at most %d bytes, target names of at most 2" % (2 if tier == "quick" else 3),
            "names exclude NUL, newline, CR, tab, and names ending in backslash or ':' (not expressible unambiguously in the dialect)",
            "the writer model specs/depfile_enc.h is what GCC/Clang do (munge(): blank, '#', '$'; ':' escaped as backslash-colon)",
            "consumers LoadDepFile/ExtractDeps (graph.cc/build.cc) are outside the unit",
        ],
        "silent": ["consumers of the parsed names (graph.cc LoadDepFile, build.cc ExtractDeps)"],
        "explanation": "Contract harness on the unmodified depfile parser: parse(enc(names)) == names for every bounded name tuple in five layouts, plus the rejection clauses; "
                       "bounded and small.",
    }
