"""Job catalogue of the Plan unit (props/planunit.py + props/harness/plan_m*.cc).  Each property module picks the jobs that carry its clauses
and sets a clause filter, so that a clause tagged for another property is decided by that property's check."""
import re

from props import planunit

P = ["Plan"]


def catalogue(tier, mutant=None):
    J = {}
    nin = [1, 2, 3]
    for k in nin:
        J["M1.NIN%d" % k] = planunit.job("Plan.EdgeMaybeReady.contract.in%d" % k, "plan_m1_edgemaybeready.cc", P + ["EdgeMaybeReady", "AllInputsReady"], ["NIN=%d" % k], mutant,
                                         bound="one edge with %d inputs, each a source or the output of a producer with a symbolic finished flag; any explicit/implicit/order-only split; "
                                               "callees ScheduleWork/EdgeFinished by contract" % k, canaries=4)
    for pres in range(8):
        J["M2.P%d" % pres] = planunit.job("Plan.NodeFinished.contract.P%d" % pres, "plan_m2_nodefinished.cc", P + ["NodeFinished"], ["PRES=%d" % pres], mutant,
                                          bound="a node with 3 consumers, plan membership mask %d, symbolic want states and callee results; callee EdgeMaybeReady by contract" % pres)
    for no in ((1, 2, 3) if tier == "thorough" else (1, 2)):
        J["M3.O%d" % no] = planunit.job("Plan.EdgeFinished.contract.out%d" % no, "plan_m3_edgefinished.cc", P + ["EdgeFinished"], ["NOUT=%d" % no], mutant,
                                        bound="an edge with %d outputs; success/failure, want state, builder/jobserver presence, pool kind symbolic; callees NodeFinished/LoadDyndeps/Pool by contract" % no,
                                        canaries=3)
    J["M4"] = planunit.job("Plan.ScheduleWork.contract", "plan_m4_schedulework.cc", P + ["ScheduleWork"], [], mutant, strength="proof",
                           bound=None, canaries=3)
    for pres in (0, 1):
        J["M5.P%d" % pres] = planunit.job("Plan.AddSubTarget.contract.P%d" % pres, "plan_m5_addsubtarget.cc", P + ["AddSubTarget", "EdgeWanted"], ["NIN=2", "PRES=%d" % pres], mutant,
                                          rec=["AddSubTarget"], unwind=84, str_cap=80, canaries=3 if pres == 0 else 2,
                                          bound="a node that is a leaf or the output of an edge with 2 inputs; edge %s the plan; recursion by contract (R1)" % ("already in" if pres else "not yet in"))
        J["M6.P%d" % pres] = planunit.job("Plan.CleanNode.contract.P%d" % pres, "plan_m6_cleannode.cc", P + ["CleanNode"], ["PRES=%d" % pres], mutant, rec=["CleanNode"],
                                          canaries=3 if pres else 1,
                                          bound="a node with two consumers; the planned one has 3 inputs (0-2 order-only) and 2 outputs; dirty flags, mtimes, deps_missing, phony, scan verdict symbolic; recursion by contract (R1)")
    for pres in range(4):
        J["M7.P%d" % pres] = planunit.job("Plan.UnmarkDependents.contract.P%d" % pres, "plan_m7_unmark.cc", P + ["UnmarkDependents"], ["PRES=%d" % pres], mutant, rec=["UnmarkDependents"],
                                          bound="a node with two consumers (2 outputs / 1 output), plan membership mask %d, symbolic marks; recursion by contract (R1)" % pres)
    for nd in (1, 2):
        J["M9.N%d" % nd] = planunit.job("Plan.RefreshDyndepDependents.contract.n%d" % nd, "plan_m9_refresh.cc", P + ["RefreshDyndepDependents", "EdgeWanted"], ["NDEP=%d" % nd], mutant,
                                        canaries=2 if nd == 2 else 1,
                                        bound="%d collected dependents; want states, re-scan verdicts (dirty / validation found / error) and AddTarget result symbolic; UnmarkDependents, RecomputeDirty, AddSubTarget by contract" % nd)
    J["M8"] = planunit.job("Plan.ScheduleInitialEdges.contract", "plan_m8_initial.cc", P + ["ScheduleInitialEdges", "AllInputsReady"], ["NE=%d" % (3 if tier == "thorough" else 2)], mutant,
                           bound="%d planned edges in two pools, symbolic want states, readiness and pool depths; callee ScheduleWork by contract" % (3 if tier == "thorough" else 2),
                           canaries=3 if tier == "thorough" else 2, timeout=1800, weight=50.0)
    return J


def select(tier, keys, tag, mutant=None):
    J = catalogue(tier, mutant)
    out = []
    rx = re.compile(tag)
    for k, j in J.items():
        if any(k == s or k.startswith(s + ".") for s in keys):
            j.clause_filter = rx
            out.append(j)
    return out


PLAN_TRUST = ["cbmc 6.11.0 C++ front end", "model std::string/vector/map (array models), std::set<T*> as an insertion-ordered set",
              "shadow Node/Edge and contract stubs Pool, EdgePriorityQueue, Status, Builder::LoadDyndeps, Jobserver client, DependencyScan (stubs/ninja_plan/graph.h, props/planunit.py; "
              "member spellings conformance-checked against graph.h/state.h/build.h by regex on every run)",
              "lowerings L7 (range-for), L24 (unique_ptr::operator-> spelled .get()->), L25 (find_if+mem_fn spelled as a loop), L27 (declaration in an if-condition hoisted), "
              "R1 (a self-recursive call is replaced by the function's own contract)",
              "struct Plan is the verbatim text of build.h with std::unordered_map modelled by the array map and Plan::AddTarget = AddSubTarget minus the targets_ bookkeeping"]
PLAN_ASSUME = ["MODULAR: each function is checked against the CONTRACTS of its callees (stated in the stubs); the chain EdgeFinished -> NodeFinished -> EdgeMaybeReady -> ScheduleWork/EdgeFinished is "
               "covered because every link's postcondition is the next link's precondition (asserted at the call sites), not by running the chain",
               "BOUNDED in the size of the local neighbourhood (inputs <= 3, outputs <= 2, consumers <= 3); no global graph is explored: whole-build statements (every schedule, every history) are NOT decided",
               "plan membership (which edges are in want_) is enumerated per run, want states and all flags are symbolic"]
