"""C12 (lexical clauses): Lexer::ReadEvalString / ReadToken / EatWhitespace / ReadIdent - the checked-in re2c output /repo/src/lexer.cc, unmodified except that
Lexer::Error is replaced by its contract - against a reference reader written from the manual (specs/ninja_lex_ref.h).  Explored path by path (--paths lifo)."""
import os
import re
import subprocess

from engine import slicer
from engine.core import Job, VERIF, extract_inputs, array_from
from engine.routeb import gotocc_cpp, CHECKS, STD, mirrored_string_piece
from engine.selftest import subst

ID = "C12"
USES_CPP = True

MANIFEST = {
    "level_claimed": {
        "category": "other",
        "text": "Lexical clauses only, bounded: for every byte string of the tier length (all 256 values per byte, followed by a line end) the real Lexer::ReadEvalString "
                "(paths and variable values; lexer.cc is the checked-in re2c output, verified as compiled) accepts exactly the texts the manual defines and yields exactly the documented "
                "token list - $$ $space $: $^ as literals, $newline (LF or CRLF) plus indentation as nothing, ${name} and $name as variable references with the documented name alphabets, "
                "a path ending at space ':' '|' or the line end, a value running to the line end - stops where the manual says (after a path, blanks and $-newline continuations are skipped), "
                "and rejects everything else (bad $-escape, NUL, lone CR) with a diagnostic. ReadToken: first-byte clauses (tab indentation is rejected with the 'tabs are not allowed' "
                "diagnosis, = : | || |@ newline CRLF EOF, identifiers) for all 3-byte prefixes and the keyword table on concrete texts. "
                "Parser side, two statements only (real text of ManifestParser::ParseFileInclude / ParseDefault against Lexer, Parser::Load and State contracts): `include` parses the named file in the CURRENT scope and "
                "`subninja` in a NEW child scope - for every sequence of two such statements, also an include after a subninja; default targets are canonicalised and unknown ones rejected. "
                "NOT decided: the rest of ManifestParser / eval_env / state (lookup order build-rule-file, immediate vs late expansion, duplicate outputs, unknown rule or pool, missing command, non-reserved rule variable, dyndep not an input); ParseRule was attempted and did not finish.",
        "design_ref": "DESIGN.md 5 C12",
    },
    "level_note": "trusted: cbmc 6.11 C++ front end (--paths lifo), model std::string, specs/ninja_lex_ref.h (the oracle: a branch-free automaton written from the manual, natively tested), "
                  "EvalString replaced by a recording contract stub (AddText/AddSpecial append to a ghost token list), Lexer::Error replaced by its contract (false, *err non-empty)",
    "technique": "contract-based verification with CBMC: assume/assert contract harness (post: result == reference reader) on the unmodified re2c output; bounded, path-by-path symbolic execution",
}

EVAL_STUB = r'''
#ifndef NINJA_EVAL_ENV_H_
#define NINJA_EVAL_ENV_H_
#include <string>
#include "string_piece.h"
/* contract stub of EvalString (eval_env.cc): AddText appends literal bytes, AddSpecial appends one variable reference; the ghost list is the flattened view */
#define VF_EV_CAP 24
struct EvalString {
  unsigned char ch[VF_EV_CAP]; unsigned char kind[VF_EV_CAP]; int n; bool bad_piece;
  EvalString() : n(0), bad_piece(false) {}
  void AddText(StringPiece text);
  void AddSpecial(StringPiece text);
};
#endif
'''

HARNESS = r'''
#define private public
#include "lexer.h"
#undef private
#include "eval_env.h"
extern "C" {
#include "ninja_lex_ref.h"
}
unsigned char nondet_uchar();
static const char* vf_buf_lo = 0; static const char* vf_buf_hi = 0;
static bool vf_inside(const char* p, size_t n) {      /* no relational comparison across objects (a literal piece lives elsewhere) */
  return __CPROVER_same_object(p, vf_buf_lo) & ((size_t)__CPROVER_POINTER_OFFSET(p) + n <= (size_t)__CPROVER_POINTER_OFFSET(vf_buf_hi));
}
void EvalString::AddText(StringPiece text) {
  /* pre (C13): a piece handed to the evaluator lies inside the input buffer or is one of the lexer's literals */
  bool in = vf_inside(text.str_, text.len_);
  __CPROVER_assert(in | (text.len_ == 1), "pre AddText (C13): the piece lies inside the manifest text (or is a one-byte literal)");
  for (size_t i = 0; i < text.len_; i++) { __CPROVER_assert(n < VF_EV_CAP, "model capacity: token list"); __CPROVER_assume(n < VF_EV_CAP); ch[n] = (unsigned char)text.str_[i]; kind[n] = 0; n++; }
}
void EvalString::AddSpecial(StringPiece text) {
  __CPROVER_assert(vf_inside(text.str_, text.len_), "pre AddSpecial (C13): the variable name lies inside the manifest text");
  __CPROVER_assert(text.len_ > 0, "pre AddSpecial (C12): a variable reference has a non-empty name");
  for (size_t i = 0; i < text.len_; i++) { __CPROVER_assert(n < VF_EV_CAP, "model capacity: token list"); __CPROVER_assume(n < VF_EV_CAP); ch[n] = (unsigned char)text.str_[i]; kind[n] = i == 0 ? 1 : 2; n++; }
}
#if MODE <= 1
extern "C" void harness() {
  /* MODE 0: variable value, MODE 1: path.  L symbolic bytes (the first FIXED of them given by -DB0), then TAIL */
  static unsigned char in[L + 8];
  const unsigned char tail[] = TAIL;
  int tl = sizeof(tail) - 1;
  for (int i = 0; i < L; i++) in[i] = nondet_uchar();
#ifdef B0
  in[0] = (unsigned char)B0;
#endif
  for (int i = 0; i < tl; i++) in[L + i] = tail[i];
  in[L + tl] = 0;
  int len = L + tl;
  vf_buf_lo = (const char*)&in[0]; vf_buf_hi = (const char*)&in[0] + len + 1;
  Lexer lx;
  lx.Start(StringPiece("f", 1), StringPiece((const char*)&in[0], (size_t)len));
  lx.manifest_version_major = CARET_OK ? 1 : 1; lx.manifest_version_minor = CARET_OK ? 14 : 13; lx.newline_version_checked_ = false;
  EvalString ev; std::string err;
  bool ok = MODE == 1 ? lx.ReadPath(&ev, &err) : lx.ReadVarValue(&ev, &err);
  struct vf_lex_out o;
  vf_lex_ref(&in[0], len, MODE, CARET_OK, &o);
  __CPROVER_assert(ok == (o.ok != 0), "post C12: a path/value is accepted exactly when it is well formed by the manual's lexical rules (bad $-escapes, NUL and a lone CR are rejected)");
  if (!ok) __CPROVER_assert(!err.empty(), "post C12: a rejected text comes with a diagnostic");
  if (ok) {        /* ok is concrete on every path; o.ok is symbolic and stays inside the assertions */
    __CPROVER_assert(!(o.ok != 0) | (ev.n == o.n), "post C12: the token list has the documented length ($-escapes, continuations and variable references read as the manual says)");
    bool same = true;
    for (int i = 0; i < VF_LX_CAP; i++) same = same & (!((i < ev.n) & (i < o.n)) | ((ev.ch[i] == o.ch[i]) & (ev.kind[i] == o.kind[i])));      /* branch-free */
    __CPROVER_assert(!(o.ok != 0) | same, "post C12: the token list is the documented one, byte for byte, literal text and variable names kept apart");
    long pos = lx.ofs_ - (const char*)&in[0];
    __CPROVER_assert(!(o.ok != 0) | (pos == (MODE == 1 ? o.after_ws : o.end)), "post C12: reading stops where the manual says (a path at its delimiter, then blanks and $-newline are skipped; a value after its line end)");
  }
  __CPROVER_assert((lx.ofs_ >= (const char*)&in[0]) & (lx.ofs_ <= (const char*)&in[0] + len + 1), "post C13: the read position stays inside the NUL-terminated text");
  __CPROVER_assert(0, "canary: end of harness reachable");
}
#elif MODE == 2
extern "C" void harness() {
  /* ReadToken on every 3-byte prefix (then "a\n"): first-byte clauses */
  static unsigned char in[8];
  for (int i = 0; i < 3; i++) in[i] = nondet_uchar();
#ifdef B0
  in[0] = (unsigned char)B0;
#endif
  in[3] = 'a'; in[4] = '\n'; in[5] = 0;
  vf_buf_lo = (const char*)&in[0]; vf_buf_hi = (const char*)&in[0] + 6;
  Lexer lx;
  lx.Start(StringPiece("f", 1), StringPiece((const char*)&in[0], 5));
  lx.manifest_version_major = 1; lx.manifest_version_minor = 14; lx.newline_version_checked_ = false;
  Lexer::Token t = lx.ReadToken();
  unsigned char b0 = in[0], b1 = in[1];
  __CPROVER_assert((lx.ofs_ > (const char*)&in[0]) & (lx.ofs_ <= (const char*)&in[0] + 6), "post C13: a token consumes at least one byte and the read position stays inside the NUL-terminated text");
  __CPROVER_assert((lx.last_token_ >= (const char*)&in[0]) & (lx.last_token_ < lx.ofs_), "post C12: the diagnostic position points at the token just read");
  __CPROVER_assert(!(b0 == '\t') | (t == Lexer::ERROR), "post C12: a tab where a token should start is rejected");
  if (b0 == '\t') { std::string d = lx.DescribeLastError(); std::string want("tabs are not allowed, use spaces"); __CPROVER_assert(d == want, "post C12: tab indentation gets the 'tabs are not allowed' diagnosis"); }
  __CPROVER_assert(!(b0 == '=') | (t == Lexer::EQUALS), "post C12: '=' is EQUALS");
  __CPROVER_assert(!(b0 == ':') | (t == Lexer::COLON), "post C12: ':' is COLON");
  __CPROVER_assert(!((b0 == '|') & (b1 == '|')) | (t == Lexer::PIPE2), "post C12: '||' is the order-only separator");
  __CPROVER_assert(!((b0 == '|') & (b1 == '@')) | (t == Lexer::PIPEAT), "post C12: '|@' is the validation separator");
  __CPROVER_assert(!((b0 == '|') & (b1 != '|') & (b1 != '@')) | (t == Lexer::PIPE), "post C12: '|' is the implicit separator");
  __CPROVER_assert(!(b0 == 0) | (t == Lexer::TEOF), "post C12: NUL is end of file");
  __CPROVER_assert(!(b0 == '\n') | (t == Lexer::NEWLINE), "post C12: LF is a line end");
  __CPROVER_assert(!((b0 == '\r') & (b1 == '\n')) | (t == Lexer::NEWLINE), "post C12: CRLF is a line end");
  __CPROVER_assert(!((b0 == '\r') & (b1 != '\n')) | (t == Lexer::ERROR), "post C12: a lone CR is rejected");
  bool v0 = vf_is_var(b0) != 0;
  __CPROVER_assert(!v0 | (t == Lexer::IDENT), "post C12: a name of fewer than four name bytes is an identifier (no keyword is that short)");
  bool other = !v0 & (b0 != ' ') & (b0 != '#') & (b0 != '=') & (b0 != ':') & (b0 != '|') & (b0 != 0) & (b0 != '\n') & (b0 != '\r');
  __CPROVER_assert(!other | (t == Lexer::ERROR), "post C12: any other byte where a token should start is a lexing error");
  __CPROVER_assert(0, "canary: end of harness reachable");
}
#else
static Lexer::Token vf_tok(const char* text) {
  Lexer lx; lx.Start(StringPiece("f", 1), StringPiece(text));
  lx.manifest_version_major = 1; lx.manifest_version_minor = 14; lx.newline_version_checked_ = false;
  return lx.ReadToken();
}
extern "C" void harness() {
  /* keyword table and longest-match rule on concrete texts (symex runs them as an interpreter) */
  __CPROVER_assert(vf_tok("build x\n") == Lexer::BUILD, "post C12: keyword build");
  __CPROVER_assert(vf_tok("pool x\n") == Lexer::POOL, "post C12: keyword pool");
  __CPROVER_assert(vf_tok("rule x\n") == Lexer::RULE, "post C12: keyword rule");
  __CPROVER_assert(vf_tok("default x\n") == Lexer::DEFAULT, "post C12: keyword default");
  __CPROVER_assert(vf_tok("include x\n") == Lexer::INCLUDE, "post C12: keyword include");
  __CPROVER_assert(vf_tok("subninja x\n") == Lexer::SUBNINJA, "post C12: keyword subninja");
  __CPROVER_assert(vf_tok("builds = 1\n") == Lexer::IDENT, "post C12: a longer name that starts with a keyword is an identifier");
  __CPROVER_assert(vf_tok("rule.x = 1\n") == Lexer::IDENT, "post C12: a dotted name that starts with a keyword is an identifier");
  __CPROVER_assert(vf_tok("buil = 1\n") == Lexer::IDENT, "post C12: a keyword prefix is an identifier");
  __CPROVER_assert(vf_tok("  x\n") == Lexer::INDENT, "post C12: leading blanks are an indent");
  __CPROVER_assert(vf_tok("  # c\nrule x\n") == Lexer::RULE, "post C12: a comment line is skipped, also when indented");
  __CPROVER_assert(vf_tok("# c\n\n") == Lexer::NEWLINE, "post C12: a comment line is skipped");
  __CPROVER_assert(vf_tok("   \n") == Lexer::NEWLINE, "post C12: a blank line is a line end, not an indent");
  __CPROVER_assert(vf_tok("   \r\n") == Lexer::NEWLINE, "post C12: a blank CRLF line is a line end");
  __CPROVER_assert(vf_tok("\tx\n") == Lexer::ERROR, "post C12: tab indentation is rejected");
  __CPROVER_assert(vf_tok("  \tx\n") == Lexer::INDENT, "post C12: blanks before a tab are an indent (the tab is rejected as the next token)");
  {
    Lexer lx; lx.Start(StringPiece("f", 1), StringPiece("a.b-c_9 = $\n  1\n"));
    std::string id; bool r = lx.ReadIdent(&id);
    std::string want("a.b-c_9");
    __CPROVER_assert(r && id == want, "post C12: ReadIdent reads a full dotted name");
    __CPROVER_assert(lx.ReadToken() == Lexer::EQUALS, "post C12: blanks after a name are skipped");
    EvalString ev; std::string err;
    __CPROVER_assert(lx.ReadVarValue(&ev, &err) && ev.n == 1 && ev.ch[0] == '1', "post C12: blanks and a $-newline continuation after '=' are skipped before the value");
  }
  __CPROVER_assert(0, "canary: end of harness reachable");
}
#endif
'''

ERROR_STUB = ("bool Lexer::Error(const string& message, string* err) {\n"
              "  /* CONTRACT of Lexer::Error (its real body is checked for memory safety in C13): stores a non-empty diagnostic, returns false */\n"
              "  *err = message; err->push_back('!'); return false;\n}\n")


def lexer_text(mutant=None, real_error=False):
    t = slicer.read_src("src/lexer.cc")
    if mutant and getattr(mutant, "target", None) is None:       # mutants with a target belong to the parser unit
        t = mutant(t)
    if not real_error:
        a, _b, c = slicer.function_span(t, r'bool\s+Lexer::Error\s*\(')
        t = t[:a] + ERROR_STUB + t[c + 1:]
    return t


def _build(mode, L, defines, mutant, unwind=40):
    def build(d):
        with open(os.path.join(d, "lexer.cc"), "w") as f:
            f.write("#define private public\n" + lexer_text(mutant))
        for h in ("lexer.h", "util.h"):
            with open(os.path.join(d, h), "w") as f:
                f.write(slicer.read_src("src/" + h))
        with open(os.path.join(d, "string_piece.h"), "w") as f:
            f.write(mirrored_string_piece())
        with open(os.path.join(d, "eval_env.h"), "w") as f:
            f.write(EVAL_STUB)
        with open(os.path.join(d, "harness.cc"), "w") as f:
            f.write(HARNESS)
        steps = [gotocc_cpp(["lexer.cc", "harness.cc"], defines=["MODE=%d" % mode, "L=%d" % L, "VF_STR_CAP=112"] + list(defines),
                            includes=[d, os.path.join(VERIF, "stubs", "cstring"), os.path.join(VERIF, "stubs", "cstdio"), STD, os.path.join(VERIF, "stubs"), os.path.join(VERIF, "specs")])]
        argv = ["cbmc", "a.gb"] + CHECKS + ["--paths", "lifo", "--unwind", str(unwind), "--unwinding-assertions"]

        def post(dd, av):
            from engine.routeb import unwindset_from_loops
            us, _ = unwindset_from_loops(dd, "a.gb", [("vf_s_", 116)])
            return av + (["--unwindset", us] if us else [])
        return steps, argv, post
    return build


FIRST = [("dollar", 36), ("blank", 32), ("colon", 58), ("pipe", 124), ("lf", 10), ("cr", 13), ("lbrace", 123), ("rbrace", 125), ("caret", 94), ("a", 97), ("dot", 46), ("tab", 9),
         ("nul", 0), ("hash", 35), ("dash", 45), ("hi", 200)]
TAILS = {"lf": '"\\n"', "crlf": '"\\r\\n"', "sp": '" x\\n"'}


def jobs(tier, mutant=None):
    js = []
    full = {"quick": 3, "thorough": 4}[tier]
    for mode, mname in ((0, "value"), (1, "path")):
        for L in range(1, full + 1):
            for tn in (("lf", "crlf", "sp") if L <= 2 else ("lf",)):
                js.append(Job("lexer.%s.L%d.%s" % (mname, L, tn), _build(mode, L, ["TAIL=" + TAILS[tn], "CARET_OK=1"], mutant), "bounded", timeout=3000,
                              bound="every byte string of length %d (256^%d), followed by %s" % (L, L, TAILS[tn]), functions=["Lexer::ReadEvalString", "Lexer::EatWhitespace"],
                              weight=7.0 ** L))
        # one more byte, first byte from a set of representatives (one process each)
        Lp = full + 1
        for nm, b0 in FIRST:
            if tier == "quick" and nm in ("hi", "dash", "hash", "nul", "tab", "rbrace"):
                continue
            js.append(Job("lexer.%s.L%d.first_%s" % (mname, Lp, nm), _build(mode, Lp, ["TAIL=" + TAILS["lf"], "CARET_OK=1", "B0=%d" % b0], mutant), "bounded", timeout=3000,
                          bound="first byte %d, then every byte string of length %d, then LF" % (b0, Lp - 1), functions=["Lexer::ReadEvalString", "Lexer::EatWhitespace"],
                          weight=7.0 ** (Lp - 1) + 1))
        js.append(Job("lexer.%s.L2.caret_gated" % mname, _build(mode, 2, ["TAIL=" + TAILS["lf"], "CARET_OK=0"], mutant), "bounded", timeout=600,
                      bound="every 2-byte string with ninja_required_version < 1.14 ($^ must be rejected)", functions=["Lexer::ReadEvalString"], weight=50))
    js.append(Job("lexer.token.prefix3", _build(2, 3, [], mutant), "bounded", timeout=3000, bound="ReadToken on every 3-byte prefix", functions=["Lexer::ReadToken", "Lexer::EatWhitespace", "Lexer::DescribeLastError"],
                  weight=400))
    # parser side (modular, props/mpunit.py): include / subninja scoping and the default statement
    from props import mpunit
    js.append(mpunit.job("ManifestParser.ParseFileInclude.contract", "mp_small.cc", ["OP=0"], mutant, canaries=2,
                         bound="two consecutive file statements (include / subninja in any combination) in a top-level or nested scope; every lexer / loader outcome symbolic"))
    js.append(mpunit.job("ManifestParser.ParseDefault.contract", "mp_small.cc", ["OP=2"], mutant, canaries=2,
                         bound="a default statement with up to 3 targets; every lexer / state outcome symbolic"))
    js.append(Job("lexer.token.keywords", _build(3, 0, [], mutant, unwind=60), "bounded", timeout=600, bound="concrete texts: the keyword table, comments, indents, ReadIdent",
                  functions=["Lexer::ReadToken", "Lexer::ReadIdent", "Lexer::EatWhitespace"], weight=5))
    return js


def _m(target, old, new):
    f = subst(old, new)
    f.target = target
    return f


def _lx(old, new):
    return subst(old, new)       # lexer mutants are applied to the whole lexer.cc text


MUTANTS = [
    ("include_env_set_only_on_creation", _m("ParseFileInclude", "  if (new_scope) {\n    subparser_->env_ = new BindingEnv(env_);\n  } else {\n    subparser_->env_ = env_;\n  }", "  if (new_scope) {\n    subparser_->env_ = new BindingEnv(env_);\n  }")),
    ("subninja_shares_scope", _m("ParseFileInclude", "subparser_->env_ = new BindingEnv(env_);", "subparser_->env_ = env_;")),
    ("default_not_canonicalised", _m("ParseDefault", "    CanonicalizePath(&path, &slash_bits);\n", "")),
]


def replay(job, ob, vals, scratch):
    m = re.match(r'lexer\.(value|path)\.', job.name)
    got = extract_inputs(vals, ("in",))
    data = array_from(got, "in", 14)
    if not m:
        return "input=%s" % bytes(data).hex(), None, {"input_hex": bytes(data).hex(), "note": "token/parser-side obligation: no native replay"}
    if b"\x00" in bytes(data):
        data = list(bytes(data)[:bytes(data).index(b"\x00")])
    hexs = bytes(data).hex()
    mode = "1" if m.group(1) == "path" else "0"
    caret = "0" if "caret_gated" in job.name else "1"
    d = os.path.join(scratch, "native_c12")
    exe = os.path.join(d, "replay")
    src = os.path.join(slicer.REPO, "src")
    if not os.path.exists(exe):
        os.makedirs(d, exist_ok=True)
        subprocess.run(["g++", "-std=c++17", "-O1", "-g", "-fsanitize=address,undefined", "-I", src, "-I", os.path.join(VERIF, "specs"), os.path.join(VERIF, "tools", "lexer_replay.cc"),
                        src + "/lexer.cc", src + "/eval_env.cc", src + "/util.cc", src + "/edit_distance.cc", src + "/string_piece_util.cc", src + "/metrics.cc", "-o", exe],
                       cwd=d, check=True, capture_output=True, timeout=300)
    p = subprocess.run([exe, hexs, mode, caret], capture_output=True, timeout=60)
    out = (p.stdout + p.stderr).decode("utf-8", "replace")
    return "input=%s mode=%s" % (hexs, mode), p.returncode != 0, {"input_hex": hexs, "input_repr": repr(bytes(data)), "mode": "path" if mode == "1" else "value", "native_rc": p.returncode,
                                                              "native_output": out[-1500:], "replay_cmd": "g++ ... tools/lexer_replay.cc src/lexer.cc src/eval_env.cc ...; ./replay %s %s %s" % (hexs, mode, caret)}


def describe(tier):
    return {
        "functions": ["lexer.cc:Lexer::ReadEvalString (ReadPath / ReadVarValue)", "lexer.cc:Lexer::EatWhitespace", "lexer.cc:Lexer::ReadToken", "lexer.cc:Lexer::ReadIdent", "lexer.cc:Lexer::DescribeLastError", "manifest_parser.cc:ManifestParser::ParseFileInclude", "manifest_parser.cc:ManifestParser::ParseDefault"],
        "checker_cmd": "goto-cc -std=c++11 lexer.cc harness.cc; cbmc a.gb --paths lifo --unwind 40 --unwinding-assertions + bounds/pointer/overflow checks",
        "trusted_base": ["cbmc 6.11.0 C++ front end, path-by-path symbolic execution", "specs/ninja_lex_ref.h (oracle written from the manual; natively tested)", "stubs/std/string",
                         "EvalString recording stub; Lexer::Error by contract", "default member initialisers of Lexer are set by the harness (front-end defect F-a)"],
        "bounds": {"quick": "all byte strings of length <= 3 (+ line end) for values and paths; length 4 with the first byte from 10 representatives; ReadToken on all 3-byte prefixes",
                   "thorough": "all byte strings of length <= 4; length 5 with the first byte from 16 representatives"},
        "assumptions": ["BOUNDED: interactions that need more symbolic bytes than the bound (e.g. a long ${name} followed by an escape) are not explored",
                        "the manifest text is NUL-terminated (ManifestParser::Load reads the file into a std::string and passes c_str-backed StringPiece: by inspection)"],
        "silent": ["variable scoping and lookup order, include vs subninja, immediate vs late expansion (ManifestParser, eval_env.cc, state.cc)",
                   "rejection of duplicate outputs, unknown rule/pool, missing command, non-reserved rule variable, dyndep not an input", "file:line text of the diagnostics (Lexer::Error is a contract stub here)"],
        "explanation": "Postcondition 'ReadEvalString(text) == reference(text)' for every bounded text; the reference is an independent automaton from the manual.",
    }
