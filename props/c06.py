"""C06 (capacity arithmetic): RealCommandRunner::CanRunMore (loop-free => proof), Pool::EdgeScheduled/EdgeFinished
(loop-free => proof), Pool::DelayEdge/RetrieveReadyEdges (bounded number of delayed edges)."""
import os
import re

from engine import slicer
from engine.core import Job, VERIF, extract_inputs
from engine.routeb import gotocc_cpp, cbmc_argv, STD
from engine.selftest import subst
from props import planjobs, builderjobs

ID = "C06"
USES_CPP = True   # adds the front-end assumption canaries (engine/frontend.py) to every run of this check

MANIFEST = {
    "level_claimed": {
        "category": "other",
        "text": "Capacity arithmetic only: (proof, loop-free, full domain) the contract of RealCommandRunner::CanRunMore - never offers more than "
                "-j minus running/finished jobs, always at least one when nothing runs, INT_MAX under a jobserver, capped by the load limit, no "
                "out-of-range double->int conversion for -l <= 2^30 - and of Pool::EdgeScheduled/EdgeFinished; (bounded, <= 4/6 delayed edges) "
                "Pool::RetrieveReadyEdges keeps 0 <= use <= depth, releases delayed edges in queue order, each once, and stops only when the next "
                "one does not fit (no idle pool slot). Jobserver tokens, 'each command at most once', termination and 'never stuck' are schedule / "
                "liveness properties of Plan/Builder and are not decided.",
        "design_ref": "DESIGN.md 5 C06",
    },
    "level_note": "trusted: cbmc 6.11 C++ front end (incl. its IEEE float model), model std::set, shadows of Edge/SubprocessSet/BuildConfig/"
                  "RealCommandRunner members (regex conformance against the real headers), GetLoadAverage replaced by its contract (finite, >= -0, <= 2^20)",
    "technique": "contract-based verification with CBMC: assume/assert contract harnesses on sliced real member functions; loop-free parts are complete proofs",
}


def check_shadow():
    g = slicer.read_src("src/graph.h")
    b = slicer.read_src("src/build.h")
    sp = slicer.read_src("src/subprocess.h")
    rc = slicer.read_src("src/real_command_runner.cc")
    for text, rx in [
        (g, r'int\s+weight\(\)\s+const\s*\{\s*return\s+1;\s*\}'),
        (g, r'int64_t\s+critical_path_weight\(\)\s+const\s*\{\s*return\s+critical_path_weight_;\s*\}'),
        (g, r'size_t\s+id_\s*=\s*0;'),
        (b, r'int\s+parallelism\s*=\s*1;'),
        (b, r'double\s+max_load_average\s*=\s*-0\.0f;'),
        (sp, r'std::vector<Subprocess\*>\s+running_;'),
        (sp, r'std::queue<Subprocess\*>\s+finished_;'),
        (rc, r'const\s+BuildConfig&\s+config_;'),
        (rc, r'SubprocessSet\s+subprocs_;'),
        (rc, r'Jobserver::Client\*\s+jobserver_\s*=\s*nullptr;'),
    ]:
        if not re.search(rx, text):
            raise slicer.SliceError("shadow for C06 out of date: /%s/ not found" % rx)


RUNNER_UNIT = r'''
#include <stddef.h>
#include <stdint.h>
#include <limits.h>
/* shadows: only what CanRunMore touches (regex conformance in props/c06.py:check_shadow) */
struct vf_sized { size_t n; size_t size() const { return n; } bool empty() const { return n == 0; } };
struct SubprocessSet { vf_sized running_; vf_sized finished_; };
struct BuildConfig { int parallelism; double max_load_average; };
struct Jobserver { struct Client { int x; }; };
static double vf_load;
double GetLoadAverage() { return vf_load; }   /* callee contract: see harness assumptions */
struct RealCommandRunner {
  RealCommandRunner(BuildConfig& config, Jobserver::Client* js) : config_p_(&config), jobserver_(js) {}
  size_t CanRunMore() const;
  BuildConfig* config_p_;           /* real: `const BuildConfig& config_;` - CBMC rejects reference members ("bad reference initializer") */
  SubprocessSet subprocs_;
  Jobserver::Client* jobserver_;
};
#define config_ (*config_p_)        /* the sliced text below keeps saying config_.x */
/* ---- verbatim slice of /repo/src/real_command_runner.cc ---- */
%(func)s
/* ---- end of slice ---- */
int nondet_int();
size_t nondet_size();
double nondet_double();
bool nondet_bool();
extern "C" void harness() {
  BuildConfig cfg;
  cfg.parallelism = nondet_int();
  __CPROVER_assume(cfg.parallelism >= 1);                 /* ninja.cc rejects -j < 0 and maps -j0 to INT_MAX */
  cfg.max_load_average = nondet_double();
  __CPROVER_assume(cfg.max_load_average == cfg.max_load_average);          /* not NaN (strtod of -l) */
  __CPROVER_assume(cfg.max_load_average <= 1073741824.0 && cfg.max_load_average >= -1073741824.0);  /* -l within 2^30: see F7 */
  vf_load = nondet_double();
  __CPROVER_assume(vf_load == vf_load && vf_load >= -0.0 && vf_load <= 1048576.0);   /* contract of GetLoadAverage */
  Jobserver::Client client;
  bool js = nondet_bool();
  RealCommandRunner r(cfg, js ? &client : (Jobserver::Client*)0);
  size_t nr = nondet_size(), nf = nondet_size();
  __CPROVER_assume(nr <= 1048576 && nf <= 1048576);
  r.subprocs_.running_.n = nr;
  r.subprocs_.finished_.n = nf;
  size_t ret = r.CanRunMore();
  bool load_limited = cfg.max_load_average > 0.0;
  int64_t free_slots = (int64_t)cfg.parallelism - (int64_t)(nr + nf);
  if (free_slots < 0) free_slots = 0;
  __CPROVER_assert(nr != 0 || ret >= 1, "post C06: progress - at least one command may start when nothing is running");
  if (!js) __CPROVER_assert((int64_t)ret <= free_slots || (ret == 1 && nr == 0),
                            "post C06: never offers more than -j minus the jobs already running or finished-unreaped");
  if (!js && !load_limited) __CPROVER_assert((int64_t)ret == free_slots || (ret == 1 && nr == 0 && free_slots == 0),
                            "post C06: no slot idles - every free -j slot is offered");
  if (js && !load_limited) __CPROVER_assert(ret == (size_t)INT_MAX, "post C06: under a jobserver the tokens bound the jobs (capacity INT_MAX)");
  if (load_limited) {
    double room = cfg.max_load_average - vf_load;
    __CPROVER_assert((double)ret <= room || ret == 0 || (ret == 1 && nr == 0), "post C06: load limit caps the offered capacity");
  }
  __CPROVER_assert(ret <= (size_t)INT_MAX, "post C06: capacity is a sane non-negative count");
  if (js) __CPROVER_assert(0, "canary: jobserver case reachable");
  if (load_limited) __CPROVER_assert(0, "canary: load-limited case reachable");
  if (free_slots == 0 && nr > 0) __CPROVER_assert(0, "canary: saturated case reachable");
  __CPROVER_assert(0, "canary: end of harness reachable");
}
'''

POOL_UNIT = r'''
#include <assert.h>
#include <stddef.h>
#include <stdint.h>
#include <string>
#include <set>
using namespace std;
/* shadow Edge (graph.h): weight() is the constant 1, priority fields as in the real struct */
struct Edge {
  int64_t critical_path_weight_;
  size_t id_;
  int weight() const { return 1; }
  int64_t critical_path_weight() const { return critical_path_weight_; }
};
/* ---- verbatim slices of /repo/src/graph.h ---- */
%(cmps)s
/* ---- end ---- */
/* contract stub of EdgePriorityQueue (std::priority_queue): push records the edge */
struct EdgePriorityQueue {
  Edge* pushed[VF_SET_CAP + 1];
  int n;
  EdgePriorityQueue() : n(0) {}
  void push(Edge* e) { __CPROVER_assert(n < VF_SET_CAP + 1, "model capacity: ready queue"); __CPROVER_assume(n < VF_SET_CAP + 1); pushed[n++] = e; }
};
#define private public
/* ---- verbatim slice of struct Pool from /repo/src/state.h (L12: name() accessor removed) ---- */
%(pool)s
/* ---- end ---- */
#undef private
/* ---- verbatim slices of /repo/src/state.cc ---- */
%(funcs)s
/* ---- end ---- */
int nondet_int();
long nondet_long();
size_t nondet_size();
extern "C" void harness() {
  Edge edges[K + 1];
  int depth = nondet_int();
  __CPROVER_assume(depth >= 0);                         /* Pool::is_valid(); the manifest parser rejects negative depths */
  Pool pool(std::string("p"), depth);
  __CPROVER_assert(pool.current_use_ == 0, "post C06: a new pool has no slot in use");
#if K == 0
  /* loop-free contracts of EdgeScheduled / EdgeFinished, full int domain */
  int use = nondet_int();
  __CPROVER_assume(use >= 0 && (depth == 0 || use <= depth));     /* pool invariant */
  __CPROVER_assume(use <= 1073741824);                            /* fewer than 2^30 edges hold slots of one pool at once */
  pool.current_use_ = use;
  edges[0].critical_path_weight_ = 0; edges[0].id_ = 0;
  if (depth == 0 || use < depth) {
    pool.EdgeScheduled(edges[0]);
    __CPROVER_assert(pool.current_use_ == (depth != 0 ? use + 1 : use), "post C06: EdgeScheduled takes exactly one slot of a finite pool");
    pool.EdgeFinished(edges[0]);
    __CPROVER_assert(pool.current_use_ == use, "post C06: EdgeFinished gives the slot back");
  }
  __CPROVER_assert(pool.ShouldDelayEdge() == (depth != 0), "post C06: only finite pools delay");
#else
  int use = nondet_int();
  __CPROVER_assume(depth != 0);                          /* DelayEdge's own precondition (assert in the code; Plan checks ShouldDelayEdge first) */
  __CPROVER_assume(use >= 0 && use <= depth);            /* pool invariant */
  __CPROVER_assume(use <= 1073741824);                   /* fewer than 2^30 edges hold slots of one pool at once (each is a heap object) */
  pool.current_use_ = use;
  for (int i = 0; i < K; i++) {
    edges[i].critical_path_weight_ = nondet_long();
    edges[i].id_ = nondet_size();
    for (int j = 0; j < i; j++) __CPROVER_assume(edges[j].id_ != edges[i].id_);   /* State assigns distinct ids */
    pool.DelayEdge(&edges[i]);
  }
  __CPROVER_assert(pool.delayed_.size() == K, "post C06: every delayed edge is queued (none lost to comparator equivalence)");
  Edge* before[K];
  for (int i = 0; i < K; i++) before[i] = pool.delayed_.d_[i];
  EdgePriorityQueue q;
  pool.RetrieveReadyEdges(&q);
  int k = q.n;
  __CPROVER_assert(pool.current_use_ == use + k, "post C06: use grows by exactly the number of released edges");
  __CPROVER_assert(pool.current_use_ >= 0 && pool.current_use_ <= depth, "invariant C06: 0 <= slots in use <= pool depth");
  __CPROVER_assert((int)pool.delayed_.size() == K - k, "post C06: released edges leave the delayed set, the others stay");
  for (int i = 0; i < K; i++) {
    if (i < k) __CPROVER_assert(q.pushed[i] == before[i], "post C06: edges are released in queue order, each exactly once");
    else __CPROVER_assert(pool.delayed_.d_[i - k] == before[i], "post C06: edges that were not released keep their order");
  }
  __CPROVER_assert(pool.delayed_.empty() || pool.current_use_ + 1 > depth, "post C06: no idle slot - an edge stays delayed only if the pool is full");
#if K > 1
  if (k > 0 && k < K) __CPROVER_assert(0, "canary: partial release reachable");
#endif
  /* priority order of the delayed set */
  for (int i = 0; i + 1 < K; i++) {
    Edge* a = before[i]; Edge* b = before[i + 1];
    __CPROVER_assert(a->critical_path_weight_ > b->critical_path_weight_ ||
                     (a->critical_path_weight_ == b->critical_path_weight_ && a->id_ < b->id_),
                     "post C06: delayed edges are ordered by priority (critical path weight desc, id asc)");
  }
#endif
  __CPROVER_assert(0, "canary: end of harness reachable");
}
'''


def pool_struct():
    blk = slicer.extract_block("src/state.h", r'struct\s+Pool\s*\{')
    blk, n12 = re.subn(r'^\s*const\s+std::string&\s+name\(\)\s+const\s*\{[^}]*\}\s*$', '', blk, flags=re.M)
    if n12 != 1:
        raise slicer.SliceError("L12 expected to fire once in struct Pool, fired %d" % n12)
    return blk


def _build_runner(mutant):
    def build(d):
        check_shadow()
        f = slicer.extract_function("src/real_command_runner.cc", r'size_t\s+RealCommandRunner::CanRunMore\s*\(')
        if mutant and mutant.target == "runner":
            f = mutant(f)
        with open(os.path.join(d, "unit.cc"), "w") as fh:
            fh.write(RUNNER_UNIT % {"func": f})
        steps = [gotocc_cpp(["unit.cc"], includes=[STD])]
        return steps, cbmc_argv() + ["--conversion-check", "--float-overflow-check", "--nan-check"]
    return build


def _build_pool(K, mutant):
    def build(d):
        check_shadow()
        cmps = slicer.extract_block("src/graph.h", r'struct\s+EdgePriorityLess\s*\{') + "\n" + \
            slicer.extract_block("src/graph.h", r'struct\s+EdgePriorityGreater\s*\{')
        funcs = []
        applied = False
        for sig in (r'void\s+Pool::EdgeScheduled\s*\(', r'void\s+Pool::EdgeFinished\s*\(', r'void\s+Pool::DelayEdge\s*\(',
                    r'void\s+Pool::RetrieveReadyEdges\s*\('):
            f = slicer.extract_function("src/state.cc", sig)
            if mutant and mutant.target == "pool":
                try:
                    f = mutant(f)
                    applied = True
                except slicer.SliceError:
                    pass
            funcs.append(f)
        # L20: `DelayedEdges::iterator` -> the typedef's definition spelled out (CBMC cannot look a member of a class-scope
        # typedef of a template instance up in an out-of-class member definition: "scope 'DelayedEdges' not found")
        if not re.search(r'typedef\s+std::set<Edge\*,\s*WeightedEdgeCmp>\s+DelayedEdges;', slicer.read_src("src/state.h")):
            raise slicer.SliceError("L20: typedef DelayedEdges changed")
        funcs[3], n20 = re.subn(r'\bDelayedEdges::iterator\b', 'std::set<Edge*, Pool::WeightedEdgeCmp>::iterator', funcs[3])
        if n20 != 1:
            raise slicer.SliceError("L20 expected to fire once in RetrieveReadyEdges, fired %d" % n20)
        if mutant and mutant.target == "pool" and not applied:
            raise slicer.SliceError("selftest mutant did not apply")
        # L19: `Functor()(args)` -> `vf_f_Functor(args)` with `static Functor vf_f_Functor;` (CBMC crashes value-initialising a
        # temporary of a class type that has member functions: "struct member must not be of code type"); stateless functors only
        less_blk = slicer.extract_block("src/graph.h", r'struct\s+EdgePriorityLess\s*\{')
        greater_blk = slicer.extract_block("src/graph.h", r'struct\s+EdgePriorityGreater\s*\{')
        greater_blk, n1 = re.subn(r'\bEdgePriorityLess\(\)\(', 'vf_f_EdgePriorityLess(', greater_blk)
        pool_blk, n2 = re.subn(r'\bEdgePriorityGreater\(\)\(', 'vf_f_EdgePriorityGreater(', pool_struct())
        if n1 > 1 or n2 > 1:
            raise slicer.SliceError("L19 fired more often than the declared forms allow (%d/%d)" % (n1, n2))
        if re.search(r'\b[A-Z]\w*\(\)\(', greater_blk + pool_blk):
            raise slicer.SliceError("a functor temporary `X()(...)` that L19 does not cover remains in the slice")
        cmps = less_blk + "\nstatic EdgePriorityLess vf_f_EdgePriorityLess;\n" + greater_blk + "\nstatic EdgePriorityGreater vf_f_EdgePriorityGreater;\n"
        with open(os.path.join(d, "unit.cc"), "w") as fh:
            fh.write(POOL_UNIT % {"cmps": cmps, "pool": pool_blk, "funcs": "\n\n".join(funcs)})
        steps = [gotocc_cpp(["unit.cc"], defines=["K=%d" % K, "VF_SET_CAP=%d" % (K + 1), "VF_STR_CAP=8"], includes=[STD])]
        return steps, cbmc_argv(unwind=max(K + 2, 10))
    return build


KS = {"quick": [1, 2, 3, 4], "thorough": [1, 2, 3, 4, 5, 6]}


def jobs(tier, mutant=None):
    js = [Job("CanRunMore.contract", _build_runner(mutant), "proof", timeout=900, canaries=4,
              functions=["RealCommandRunner::CanRunMore"], weight=5),
          Job("Pool.slot_arithmetic", _build_pool(0, mutant), "proof", timeout=600, canaries=1,
              functions=["Pool::EdgeScheduled", "Pool::EdgeFinished", "Pool::ShouldDelayEdge"], weight=1)]
    for K in KS[tier]:
        js.append(Job("Pool.retrieve.K%d" % K, _build_pool(K, mutant), "bounded", timeout=3000, canaries=2 if K > 1 else 1,
                      bound="%d delayed edges, all priorities/ids/depth/use symbolic" % K,
                      functions=["Pool::DelayEdge", "Pool::RetrieveReadyEdges", "Pool::EdgeScheduled", "Pool::WeightedEdgeCmp"], weight=3.0 ** K))
    # Plan side (modular, props/planunit.py): the pool operations are called in the right order, each command is scheduled at most once,
    # slots/tokens are given back on success and failure, a startable wanted edge is scheduled at once
    js += planjobs.select(tier, ["M1", "M3", "M4", "M8"], r'\bC06\b', mutant)
    # Build loop (modular, props/builderunit.py): job slots / jobserver tokens are given back on every return path; ninja only waits while a command runs
    js += builderjobs.select(tier, ["B3"], r'\bC06\b', mutant)
    return js


def _m(target, old, new):
    f = subst(old, new)
    f.target = target
    return f


MUTANTS = [
    ("progress_rule_dropped", _m("runner", "if (capacity == 0 && subprocs_.running_.empty())", "if (capacity == 0 && subprocs_.finished_.empty())")),
    ("finished_not_counted", _m("runner", "subprocs_.running_.size() + subprocs_.finished_.size();", "subprocs_.running_.size();")),
    ("pool_off_by_one", _m("pool", "if (current_use_ + edge->weight() > depth_)", "if (current_use_ + edge->weight() > depth_ + 1)")),
    ("pool_stops_early", _m("pool", "if (current_use_ + edge->weight() > depth_)", "if (current_use_ + edge->weight() >= depth_)")),
    ("release_not_counted", _m("pool", "EdgeScheduled(*edge);\n    ++it;", "++it;")),
    ("finished_adds", _m("pool", "current_use_ -= edge.weight();", "current_use_ += edge.weight();")),
    ("scheduled_twice", _m("ScheduleWork", "  if (want_e->second == kWantToFinish) {", "  if (want_e->second == kWantNothing) {")),
    ("slot_not_returned_on_failure", _m("EdgeFinished", "  if (directly_wanted)\n    edge->pool()->EdgeFinished(*edge);\n  edge->pool()->RetrieveReadyEdges(&ready_);", "  if (directly_wanted && result == kEdgeSucceeded)\n    edge->pool()->EdgeFinished(*edge);\n  edge->pool()->RetrieveReadyEdges(&ready_);")),
    ("token_kept_on_failure", _m("EdgeFinished", "  // Release job slot if needed.\n  if (builder_ && builder_->jobserver_.get())\n    builder_->jobserver_->Release(std::move(edge->job_slot_));\n\n  // The rest of this function only applies to successful commands.\n  if (result != kEdgeSucceeded)\n    return true;\n", "  if (result != kEdgeSucceeded)\n    return true;\n  if (builder_ && builder_->jobserver_.get())\n    builder_->jobserver_->Release(std::move(edge->job_slot_));\n")),
    ("finite_pool_bypassed", _m("ScheduleWork", "if (pool->ShouldDelayEdge()) {", "if (false) {")),
]


def replay(job, ob, vals, scratch):
    names = ("depth", "use", "nr", "nf", "js", "ret", "k", "vf_load")
    got = extract_inputs(vals, names)
    sig = " ".join("%s=%s" % (k, v[0]) for k, v in sorted(got.items()) if "[" not in k)
    return sig, None, {"counterexample_state": {k: v[0] for k, v in got.items()},
                       "note": "member-function contract: the counterexample is an object state + call, not a file or command line; "
                               "no native replay driver (the objects need the whole Plan/Builder to be constructed natively)"}


def describe(tier):
    return {
        "functions": ["real_command_runner.cc:RealCommandRunner::CanRunMore", "state.cc:Pool::EdgeScheduled", "Pool::EdgeFinished", "Pool::DelayEdge",
                      "Pool::RetrieveReadyEdges", "state.h:struct Pool (WeightedEdgeCmp)", "graph.h:EdgePriorityLess/Greater"],
        "checker_cmd": "goto-cc -std=c++11 unit.cc; cbmc [--unwind K+2] --unwinding-assertions + checks (+ --conversion-check --float-overflow-check --nan-check for CanRunMore)",
        "trusted_base": ["cbmc 6.11.0 C++ front end, float model", "stubs/std/set, stubs/std/string", "shadow Edge/SubprocessSet/BuildConfig/RealCommandRunner (regex conformance)",
                         "contract stubs GetLoadAverage, EdgePriorityQueue::push", "lowering L12 on struct Pool"],
        "bounds": {t: "CanRunMore, slot arithmetic: none (loop-free); RetrieveReadyEdges: K in %s delayed edges" % KS[t] for t in KS},
        "assumptions": [
            "parallelism >= 1 (ninja.cc option parsing), |-l| <= 2^30, GetLoadAverage finite in [-0, 2^20], at most 2^20 subprocesses: stated as harness assumptions, not proved",
            "at most 2^30 edges hold slots of one pool at once (otherwise current_use_ + 1 overflows int): assumed", "pool invariant 0 <= use <= depth is assumed at entry and proved at exit of RetrieveReadyEdges (inductive); EdgeFinished is only called for an edge that was scheduled (caller history, not proved)",
            "Edge::weight() is the constant 1 (checked by regex on graph.h)",
            "BOUNDED: RetrieveReadyEdges for at most %d delayed edges" % max(KS[tier]),
        ],
        "silent": ["jobserver tokens returned on ninja's exit paths (Builder cleanup), tokens acquired in FindWork", "termination / never 'stuck' as a whole-build statement",
                   "'each command at most once' beyond the per-call clauses of ScheduleWork / EdgeFinished / AddSubTarget"],
        "explanation": "Contract harnesses on sliced CanRunMore and Pool member functions; loop-free parts are complete, RetrieveReadyEdges bounded by the number of delayed edges.",
    }
