"""C13 - no file content can crash ninja: the memory-safety / abort obligations (array bounds, pointer dereference, asserted
std::string / std::vector / stdio preconditions, allocation sizes, signed overflow) of every content-processing unit that CBMC can read.
Most runs are the runs of C09/C14/C15/C16/C19 with fully symbolic content; C13 reads its obligation classes out of them and adds
units of its own (DepfileParser on arbitrary bytes, CLParser::FilterShowIncludes, StripAnsiEscapeCodes)."""
import os
import subprocess

from engine import slicer
from engine.core import Job, VERIF, extract_inputs, array_from
from engine.routeb import gotocc_cpp, cbmc_argv, CHECKS, STD, mirrored_string_piece
from engine.selftest import subst
from props import c09, c14, c15, c16, c19

ID = "C13"
USES_CPP = True   # adds the front-end assumption canaries (engine/frontend.py) to every run of this check

MANIFEST = {
    "level_claimed": {
        "category": "other",
        "text": "Memory-safety and no-abort obligations, bounded: for every byte string up to the per-unit bound, CBMC discharges every bounds, "
                "dereference, overflow, allocation-size and asserted library-precondition obligation in: DepfileParser::Parse (whole real file), "
                "DepsLog::Load (sliced; record limit scaled), CanonicalizePath, EncodeJSONString, GetShellEscapedString, CLParser::FilterShowIncludes, "
                "StripAnsiEscapeCodes. Lexer: the real body of Lexer::Error on every 3-byte text and diagnostic position, and the bounds/pointer obligations of Lexer::ReadEvalString/EatWhitespace (2-byte texts here; the C12 runs carry the same obligations for their longer texts). Not covered: the manifest parser, BuildLog::Load (its reader and field splitter are C08's), the status format string (StatusPrinter::FormatProgressStatus: every 3-byte format in an exact-size buffer; the floating-point ETA arithmetic is not checked). Not covered further: MAKEFLAGS parsing, include recursion "
                "(a known finding: a manifest that includes itself overflows the stack), hangs (termination is only shown per bound).",
        "design_ref": "DESIGN.md 5 C13",
    },
    "level_note": "trusted: cbmc 6.11, model std library (its asserted preconditions ARE the callee contracts), in-memory stdio model, lowerings as listed per unit; "
                  "bounded in input length (see evidence bounds); DepsLog record limit scaled to 31 bytes (L13)",
    "technique": "contract-based verification with CBMC: safety obligations + asserted library preconditions on sliced/unmodified real code with fully symbolic content; bounded",
}

DEPFILE_ANY = r'''
#include "depfile_parser.h"
unsigned char nondet_uchar();
extern "C" void harness() {
  std::string content;
  for (int i = 0; i < L; i++) content.push_back((char)nondet_uchar());      /* any bytes, NUL included; std::string keeps a NUL at [size] */
  /* poisoned slack: the model string has spare capacity behind the terminator, a real std::string need not.  Non-NUL filler makes a
     scanner that runs past the sentinel continue to the end of the array, where the bounds check fails. */
  for (size_t i = content.size() + 1; i <= VF_STR_CAP; i++) content.d_[i] = 'a';
  DepfileParser p;
  std::string err;
  bool ok = p.Parse(&content, &err);
  __CPROVER_assert(ok || !err.empty(), "post C13: a rejected depfile carries a message");
  for (size_t k = 0; k < p.ins_.size(); k++)
    __CPROVER_assert(p.ins_[k].str_ >= content.data() && p.ins_[k].str_ + p.ins_[k].len_ <= content.data() + content.size(),
                     "post C13: every dependency piece lies inside the content buffer");
  for (size_t k = 0; k < p.outs_.size(); k++)
    __CPROVER_assert(p.outs_[k].str_ >= content.data() && p.outs_[k].str_ + p.outs_[k].len_ <= content.data() + content.size(),
                     "post C13: every target piece lies inside the content buffer");
  __CPROVER_assert(0, "canary: end of harness reachable");
}
'''

SMALL = r'''
#include <string>
#include <string.h>
#include <assert.h>
#include <stdint.h>
using namespace std;
struct CLParser {
  static std::string FilterShowIncludes(const std::string& line, const std::string& deps_prefix);
};
bool islatinalpha(int c);
/* ---- verbatim slices of /repo/src/clparser.cc and /repo/src/util.cc ---- */
%(slices)s
/* ---- end of slices ---- */
unsigned char nondet_uchar();
bool nondet_bool();
extern "C" void harness() {
  std::string line;
  for (int i = 0; i < L; i++) line.push_back((char)nondet_uchar());
#ifdef UNIT_SHOWINCLUDES
  std::string prefix;
  if (nondet_bool()) { prefix.push_back((char)nondet_uchar()); if (nondet_bool()) prefix.push_back((char)nondet_uchar()); }
  std::string r = CLParser::FilterShowIncludes(line, prefix);
  __CPROVER_assert(r.size() <= line.size(), "post C13: the filtered include is a suffix of the line");
#else
  std::string r = StripAnsiEscapeCodes(line);
  __CPROVER_assert(r.size() <= line.size(), "post C13: stripping never lengthens the text");
#endif
  __CPROVER_assert(0, "canary: end of harness reachable");
}
'''


def _build_depfile_any(L, mutant):
    def build(d):
        return c15._common(d, DEPFILE_ANY, ["L=%d" % L], 60, mutant if getattr(mutant, "target", None) == "depfile" else None)
    return build


def _build_small(unit, L, mutant):
    def build(d):
        fs = slicer.extract_function("src/clparser.cc", r'string\s+CLParser::FilterShowIncludes\s*\(')
        il = slicer.extract_function("src/util.cc", r'bool\s+islatinalpha\s*\(')
        st = slicer.extract_function("src/util.cc", r'string\s+StripAnsiEscapeCodes\s*\(')
        if mutant and getattr(mutant, "target", None) == "small":
            try:
                fs = mutant(fs)
            except slicer.SliceError:
                st = mutant(st)
        # L23: `const string& prefix = c ? a : b;` -> `string vf_t; if (c) vf_t = a; else vf_t = b; const string& prefix = vf_t;`
        # CBMC aborts with an internal invariant violation on a conditional expression of class type; the if/else form is its definition
        import re
        fs, n23 = re.subn(r'const string& prefix = deps_prefix\.empty\(\) \? kDepsPrefixEnglish : deps_prefix;',
                          'string vf_prefix_tmp; if (deps_prefix.empty()) vf_prefix_tmp = kDepsPrefixEnglish; else vf_prefix_tmp = deps_prefix; '
                          'const string& prefix = vf_prefix_tmp;', fs)
        if n23 != 1:
            raise slicer.SliceError("L23 expected to fire once in FilterShowIncludes, fired %d" % n23)
        with open(os.path.join(d, "unit.cc"), "w") as f:
            f.write(SMALL % {"slices": fs + "\n\n" + il + "\n\n" + st})
        steps = [gotocc_cpp(["unit.cc"], defines=["L=%d" % L, "VF_STR_CAP=%d" % (L + 26), "UNIT_SHOWINCLUDES" if unit == "showincludes" else "UNIT_STRIP"],
                            includes=[os.path.join(VERIF, "stubs", "cstring"), STD, os.path.join(VERIF, "stubs")])]
        return steps, cbmc_argv(unwind=L + 28)
    return build


B = {
    "quick": {"depfile": [1, 2, 3], "small": [3, 5], "canon": [3, 5, 6], "json": [2, 3], "escape": [2, 3], "deps_T": [4, 8], "deps_layout": [0, 1, 2, 4]},
    "thorough": {"depfile": [1, 2, 3, 4], "small": [4, 7], "canon": [4, 6, 8], "json": [3, 4], "escape": [3, 5], "deps_T": [4, 8, 9, 12], "deps_layout": [0, 1, 2, 3, 4]},
}


STATUSFMT_UNIT = r'''
#include <stddef.h>
#include <stdint.h>
#include <string>
using namespace std;
unsigned char nondet_uchar(); int nondet_int(); long nondet_long();
#define PRId64 "ld"
static bool vf_fatal_called = false;
static void vf_fatal() { vf_fatal_called = true; }
#define Fatal(...) vf_fatal()
/* contract stub of snprintf: a NUL-terminated text shorter than n */
static int vf_snprintf(char* s, size_t n) { __CPROVER_assert(n >= 2, "pre snprintf: room for the text"); bool one = nondet_int() != 0; s[0] = one ? '0' : 0; s[1] = 0; return one ? 1 : 0; }      /* loop-free: a text of 0 or 1 bytes */
#define snprintf(buf, n, ...) vf_snprintf(buf, n)
#define SnprintfRate(rate, buf, fmt) vf_snprintf(buf, sizeof(buf))      /* status_printer.h: template over the array size; contract: as snprintf */
struct StatusPrinter {                       /* shadow: the members FormatProgressStatus reads (status_printer.h, conformance-checked) */
  int started_edges_, finished_edges_, total_edges_, running_edges_;
  int64_t time_millis_; double time_predicted_percentage_;
  struct SlidingRateInfo { void UpdateRate(int e, int64_t t) { (void)e; (void)t; } double rate() { return -1; } };
  mutable SlidingRateInfo current_rate_;
  string FormatProgressStatus(const char* progress_status_format, int64_t time_millis) const;
};
/* ---- verbatim slice of /repo/src/status_printer.cc ---- */
%(func)s
/* ---- end ---- */
extern "C" void harness() {
  static char fmt[L + 1];                      /* exact-size buffer: reading past the terminating NUL is an out-of-bounds access */
  for (int i = 0; i < L; i++) { fmt[i] = (char)nondet_uchar(); __CPROVER_assume(fmt[i] != 0); }
  fmt[L] = 0;
  StatusPrinter sp;
  sp.started_edges_ = nondet_int(); sp.finished_edges_ = nondet_int(); sp.total_edges_ = nondet_int(); sp.running_edges_ = nondet_int();
  __CPROVER_assume(sp.started_edges_ >= 0 && sp.started_edges_ <= 1000000 && sp.finished_edges_ >= 0 && sp.finished_edges_ <= sp.started_edges_ && sp.total_edges_ >= sp.started_edges_ && sp.total_edges_ <= 1000000 && sp.running_edges_ >= 0 && sp.running_edges_ <= 1000);
  sp.time_millis_ = nondet_long(); __CPROVER_assume(sp.time_millis_ >= 1 && sp.time_millis_ < 100000000);
  sp.time_predicted_percentage_ = 0.0;          /* ETA not predictable: the floating-point ETA arithmetic is not part of this check */
  string out = sp.FormatProgressStatus(&fmt[0], 0);
  __CPROVER_assert(vf_fatal_called || out.size() <= 2 * L, "post C13: a status format string is either formatted or reported as an error");
  __CPROVER_assert(0, "canary: end of harness reachable");
}
'''


def _build_statusfmt(L, mutant):
    from engine.routeb import gotocc_cpp, cbmc_argv, STD, unwindset_from_loops
    import re as _re

    def build(d):
        h = slicer.read_src("src/status_printer.h")
        for rx in [r'int\s+started_edges_,\s*finished_edges_,\s*total_edges_,\s*running_edges_;', r'int64_t\s+time_millis_\s*=\s*0;', r'double\s+time_predicted_percentage_\s*=\s*0\.0;',
                   r'mutable\s+SlidingRateInfo\s+current_rate_;']:
            if not _re.search(rx, h):
                raise slicer.SliceError("shadow StatusPrinter out of date: /%s/" % rx)
        f = slicer.extract_function("src/status_printer.cc", r'string\s+StatusPrinter::FormatProgressStatus\s*\(')
        if mutant:
            f = mutant(f)
        with open(os.path.join(d, "unit.cc"), "w") as fo:
            fo.write(STATUSFMT_UNIT % {"func": f})
        steps = [gotocc_cpp(["unit.cc"], defines=["L=%d" % L, "VF_STR_CAP=%d" % (2 * L + 6)], includes=[os.path.join(VERIF, "stubs", "cstring"), STD, os.path.join(VERIF, "stubs")])]

        def post(dd, av):
            us, _ = unwindset_from_loops(dd, "a.gb", [("vf_s_", 2 * L + 10), ("append", 2 * L + 10), ("harness.", L + 2)])
            return av + (["--unwindset", us] if us else [])
        return steps, cbmc_argv(unwind=L + 4, object_bits=10), post
    return build


LEXER_ERROR_HARNESS = r'''
#define private public
#include "lexer.h"
#undef private
#include "eval_env.h"
unsigned char nondet_uchar(); int nondet_int();
void EvalString::AddText(StringPiece text) { (void)text; }
void EvalString::AddSpecial(StringPiece text) { (void)text; }
/* contract stub of snprintf(buf, n, "%s:%d: ", ...): writes a NUL-terminated text shorter than n */
extern "C" int snprintf(char* s, size_t n, const char* fmt, ...) {
  (void)fmt;
  int k = nondet_int(); __CPROVER_assume(k >= 0 && k < 24 && (size_t)k < n);
  for (int i = 0; i < 24; i++) if (i < k) s[i] = 'x';
  s[k] = 0;
  return k;
}
extern "C" void harness() {
  static unsigned char in[L + 1];
  for (int i = 0; i < L; i++) in[i] = nondet_uchar();
  in[L] = 0;
  Lexer lx;
  lx.Start(StringPiece("build.ninja", 11), StringPiece((const char*)&in[0], (size_t)L));
  int pos = nondet_int();
  __CPROVER_assume(pos >= 0 && pos <= L);               /* last_token_ points at a byte of the NUL-terminated text (where the scanner stopped).  The NULL case (Error before any token
                                                           was read) only compares a pointer with NULL relationally - no access; it is the 'pointer relation' technical-UB class and is left out */
  lx.last_token_ = (const char*)&in[0] + pos;
  std::string err;
  bool r = lx.Error(std::string("bad"), &err);
  __CPROVER_assert(!r, "post C12: Error returns false");
  __CPROVER_assert(!err.empty(), "post C12: Error stores a diagnostic");
  __CPROVER_assert(0, "canary: end of harness reachable");
}
'''


def _build_lexer_error(L, mutant):
    from props import c12
    from engine.routeb import gotocc_cpp, cbmc_argv, STD, mirrored_string_piece, unwindset_from_loops

    def build(d):
        t = slicer.read_src("src/lexer.cc")
        if mutant:
            t = mutant(t)
        with open(os.path.join(d, "lexer.cc"), "w") as f:
            f.write("#define private public\n" + t)
        for h in ("lexer.h", "util.h"):
            with open(os.path.join(d, h), "w") as f:
                f.write(slicer.read_src("src/" + h))
        with open(os.path.join(d, "string_piece.h"), "w") as f:
            f.write(mirrored_string_piece())
        with open(os.path.join(d, "eval_env.h"), "w") as f:
            f.write(c12.EVAL_STUB)
        with open(os.path.join(d, "harness.cc"), "w") as f:
            f.write(LEXER_ERROR_HARNESS)
        steps = [gotocc_cpp(["lexer.cc", "harness.cc"], defines=["L=%d" % L, "VF_STR_CAP=112"],
                            includes=[d, os.path.join(VERIF, "stubs", "cstring"), os.path.join(VERIF, "stubs", "cstdio"), STD, os.path.join(VERIF, "stubs")])]

        def post(dd, av):
            us, _ = unwindset_from_loops(dd, "a.gb", [("vf_s_", 116), ("append", 116), ("vf_", 116), ("snprintf", 1100), ("Lexer::Error", 80)])
            return av + (["--unwindset", us] if us else [])
        return steps, cbmc_argv(unwind=80, object_bits=10), post
    return build


def jobs(tier, mutant=None):
    b = B[tier]
    tgt = getattr(mutant, "target", None)
    js = []
    for L in b["depfile"]:
        js.append(Job("c13.depfile.any_bytes.L%d" % L, _build_depfile_any(L, mutant), "bounded", timeout=3400,
                      bound="every byte string of length %d (NUL included)" % L, functions=["DepfileParser::Parse"], backend="sat(minisat), --paths lifo", weight=12.0 ** L))
    for L in b["small"]:
        js.append(Job("c13.showincludes.L%d" % L, _build_small("showincludes", L, mutant), "bounded", timeout=1800,
                      bound="every line of %d bytes, prefix of 0-2 arbitrary bytes" % L, functions=["CLParser::FilterShowIncludes"], weight=2.0 ** L))
        js.append(Job("c13.strip_ansi.L%d" % L, _build_small("strip", L, mutant), "bounded", timeout=1800,
                      bound="every text of %d bytes" % L, functions=["StripAnsiEscapeCodes", "islatinalpha"], weight=2.0 ** L))
    unit14, counts14 = c14.sliced_unit(mutant if tgt == "canon" else None)
    for L in b["canon"]:
        j = Job("c13.canon.L%d" % L, c14._build(L, unit14), "bounded", timeout=1800, bound="every byte string of length %d" % L,
                functions=["CanonicalizePath"], weight=2.0 ** L)
        j.L = L
        js.append(j)
    for L in b["json"]:
        js.append(Job("c13.json.L%d" % L, c19._build(L, mutant if tgt == "json" else None), "bounded", timeout=1800, bound="every byte string of length %d" % L,
                      functions=["EncodeJSONString"], weight=7.0 ** L))
    for L in b["escape"]:
        js.append(Job("c13.shell_escape.L%d" % L, c16._build_esc(L, mutant if tgt in ("safe", "needs", "esc") else None, False), "bounded", timeout=1800,
                      bound="every name of %d bytes without NUL/newline" % L, functions=["GetShellEscapedString"], weight=2.2 ** L))
    dm = mutant if tgt in [n for n, _s in c09.FUNCS] else None
    for T in b["deps_T"]:
        j = Job("c13.depslog.load.T%d" % T, c09._build_h1(T, dm), "bounded", timeout=3400, mem_gb=16,
                bound="valid header + every tail of %d bytes (record limit scaled to %d)" % (T, c09.SCALED_MAXREC), functions=["DepsLog::Load"], weight=3.0 ** (T / 4.0) * 20)
        j.T = T
        js.append(j)
    for k in b["deps_layout"]:
        lay = c09.LAYOUTS["quick"][k]
        T = sum(4 + sz for _dd, sz in lay)
        name = "_".join(("D%d" if dd else "P%d") % sz for dd, sz in lay)
        j = Job("c13.depslog.load.layout.%s" % name, c09._build_h1(T, dm, layout=lay), "bounded", timeout=3400, mem_gb=16,
                bound="records with concrete size words %s, every payload byte symbolic" % name, functions=["DepsLog::Load"], weight=40)
        j.T = T
        js.append(j)
    # Lexer: the real body of Lexer::Error (stubbed by its contract in C12) on every short text and every diagnostic position; the scanner functions themselves
    # carry their bounds/pointer obligations in the C12 runs (selected here for the shortest lengths)
    js.append(Job("c13.lexer.error.L3", _build_lexer_error(3, mutant if tgt == "lexer_error" else None), "bounded", timeout=1800,
                  bound="every text of 3 bytes + NUL, every position of the offending token: line/column computation and context snippet", functions=["Lexer::Error"], weight=30))
    js.append(Job("c13.status_format.L3", _build_statusfmt(3, mutant if tgt == "statusfmt" else None), "bounded", timeout=1800,
                  bound="every $NINJA_STATUS / --status format of 3 non-NUL bytes in an exact-size buffer (a read past the terminator is out of bounds); counters symbolic, ETA off",
                  functions=["StatusPrinter::FormatProgressStatus"], weight=30))
    from props import c12
    lm = mutant if tgt is None and mutant is not None and False else None
    for mode, mname in ((0, "value"), (1, "path")):
        js.append(Job("c13.lexer.%s.L2" % mname, c12._build(mode, 2, ["TAIL=" + c12.TAILS["lf"], "CARET_OK=1"], lm), "bounded", timeout=1800,
                      bound="every 2-byte text + LF through Lexer::ReadEvalString (bounds / pointer obligations; the read position stays inside the NUL-terminated text)",
                      functions=["Lexer::ReadEvalString", "Lexer::EatWhitespace"], backend="sat(minisat), --paths lifo", weight=60))
    return js


def _m(target, old, new):
    f = subst(old, new)
    f.target = target
    return f


MUTANTS = [
    ("depslog_negative_input_id", _m("Load", "if (node_id < 0 || node_id >= (int)nodes_.size() ||", "if (node_id >= (int)nodes_.size() ||")),
    ("depslog_nul_path_underflow", _m("Load", "if (path_size > 0 && buf[path_size - 1] == '\\0') --path_size;\n      if (path_size > 0 && buf[path_size - 1] == '\\0') --path_size;",
                                      "if (buf[path_size - 1] == '\\0') --path_size;\n      if (buf[path_size - 1] == '\\0') --path_size;")),
    ("canon_reads_past_end", _m("canon", "while (src + 3 <= end && src[0] == '.'", "while (src + 2 <= end && src[0] == '.'")),
    ("showincludes_skips_past_end", _m("small", "in += prefix.size();", "in += prefix.size() + 2;")),
    ("strip_ansi_unbounded_skip", _m("small", "while (i < in.size() && !islatinalpha(in[i]))", "while (!islatinalpha(in[i]))")),
    ("depfile_empty_name_underflow", _m("depfile", "if (len > 0 && filename[len - 1] == ':') {", "if (filename[len - 1] == ':') {")),
]


def replay(job, ob, vals, scratch):
    n = job.name
    if n.startswith("c13.canon"):
        return c14.replay(job, ob, vals, scratch)
    if n.startswith("c13.depslog"):
        return c09.replay(job, ob, vals, scratch)
    got = extract_inputs(vals, ("content", "line", "prefix", "orig", "in"))
    return "values=%s" % {k: v[0] for k, v in list(got.items())[:24]}, None, {"values": {k: v[0] for k, v in list(got.items())[:40]}}


def describe(tier):
    return {
        "functions": ["depfile_parser.cc:DepfileParser::Parse (whole file)", "deps_log.cc:DepsLog::Load (+UpdateDeps, Deps::Deps)", "util.cc:CanonicalizePath",
                      "json.cc:EncodeJSONString", "util.cc:GetShellEscapedString", "clparser.cc:CLParser::FilterShowIncludes", "util.cc:StripAnsiEscapeCodes", "util.cc:islatinalpha"],
        "checker_cmd": "per unit: goto-cc [-std=c++11]; cbmc --bounds-check --pointer-check --signed-overflow-check --undefined-shift-check --div-by-zero-check [--paths lifo] --unwind N --unwinding-assertions",
        "trusted_base": ["cbmc 6.11.0", "stubs/std model library (asserted preconditions are the callee contracts of libstdc++)", "stubs/cstdio in-memory file model",
                         "stubs/libc_mem.h byte loops", "lowerings L1,L2 (canon), L9-L13,L18,L21,L22 (deps log), none for depfile_parser.cc/json.cc"],
        "bounds": {t: str(B[t]) for t in B},
        "assumptions": [
            "BOUNDED per unit: %s" % B[tier],
            "termination / hangs: shown per bound only (unwinding assertions), not proved",
            "units NOT covered: lexer.cc / manifest_parser.cc (C++17 parser on top; the lexer's re2c scanner needs the same path-by-path treatment and was not brought in), "
            "build_log.cc, jobserver.cc (emplace_back), status_printer.cc, elide_middle.cc (lambda), dyndep_parser.cc beyond C11's modular check",
            "DepsLog::Load with kMaxRecordSize scaled to 31 (L13)",
        ],
        "silent": ["manifest / dyndep file lexing", ".ninja_log", "MAKEFLAGS", "status format string", "include recursion (known finding F6: self-including manifest => stack overflow, reproduced natively, not repaired)"],
        "explanation": "Safety obligations and asserted library preconditions on content-processing leaf code with fully symbolic inputs; bounded per unit.",
    }
