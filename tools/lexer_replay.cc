// Native replay for C12: runs the REAL Lexer::ReadPath / ReadVarValue (with the real EvalString) on the given bytes and compares with specs/ninja_lex_ref.h.
// usage: lexer_replay <hex bytes (NUL-terminated text, without the NUL)> <mode: 0 value, 1 path> <caret_ok>      exit 1 = the real lexer disagrees with the reference
#include <stdio.h>
#include <stdlib.h>
#include <string.h>
#include <string>
#define private public
#include "lexer.h"
#include "eval_env.h"
#undef private
extern "C" {
#include "ninja_lex_ref.h"
}
int main(int argc, char** argv) {
  if (argc < 4) return 2;
  std::string in;
  for (const char* p = argv[1]; p[0] && p[1]; p += 2) { unsigned v; sscanf(p, "%2x", &v); in.push_back((char)v); }
  size_t cut = in.find('\0'); if (cut != std::string::npos) in.resize(cut);
  int mode = atoi(argv[2]), caret = atoi(argv[3]);
  Lexer lx; lx.Start("f", in);          // std::string data() is NUL-terminated
  lx.manifest_version_major = 1; lx.manifest_version_minor = caret ? 14 : 13;
  EvalString ev; std::string err;
  bool ok = mode ? lx.ReadPath(&ev, &err) : lx.ReadVarValue(&ev, &err);
  struct vf_lex_out o; vf_lex_ref((const unsigned char*)in.c_str(), (int)in.size(), mode, caret, &o);
  // flatten the real token list
  std::string rch, rkind;
  if (ev.parsed_.empty()) { for (char c : ev.single_token_) { rch.push_back(c); rkind.push_back(0); } }
  else for (auto& t : ev.parsed_) for (size_t i = 0; i < t.first.size(); i++) { rch.push_back(t.first[i]); rkind.push_back(t.second == EvalString::RAW ? 0 : (i == 0 ? 1 : 2)); }
  bool bad = ok != (o.ok != 0);
  if (ok && o.ok) {
    if ((int)rch.size() != o.n) bad = true;
    for (int i = 0; i < o.n && i < (int)rch.size(); i++) if ((unsigned char)rch[i] != o.ch[i] || rkind[i] != (char)o.kind[i]) bad = true;
    long pos = lx.ofs_ - in.c_str();
    if (pos != (mode ? o.after_ws : o.end)) bad = true;
  }
  printf("real: ok=%d tokens=%s  reference: ok=%d n=%d end=%d after_ws=%d  real_pos=%ld  err=%s\n", ok, ev.Serialize().c_str(), o.ok, o.n, o.end, o.after_ws, (long)(lx.ofs_ - in.c_str()), err.c_str());
  return bad ? 1 : 0;
}
