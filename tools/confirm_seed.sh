#!/bin/bash
# tools/confirm_seed.sh <seed-dir under /verif/seeded> : independent confirmation of a seeded change in a scratch worktree:
#   patch applies -> builds -> full test suite passes -> demo fails; without the patch -> demo passes.
# The seed dir must hold patch.diff and run_demo.sh (args: <worktree>, <built ninja dir>).  Writes confirm.log there.
set -u
S=$(cd "$1" && pwd); NAME=$(basename "$S"); WT=/tmp/confirm_$NAME
git -C /repo worktree remove --force $WT >/dev/null 2>&1; rm -rf $WT
git -C /repo worktree add -q --detach $WT || exit 3
log=$S/confirm.log; : > $log
build() { (cd $WT && cmake -G Ninja -B _build >/dev/null 2>&1 && cmake --build _build 2>&1 | tail -1) >> $log 2>&1; }
echo "== clean tree: demo must pass" >> $log
build; bash $S/run_demo.sh $WT $WT/_build >> $log 2>&1; clean_rc=$?
echo "clean demo rc=$clean_rc" >> $log
echo "== patched tree" >> $log
git -C $WT apply $S/patch.diff >> $log 2>&1 || { echo "PATCH DOES NOT APPLY" | tee -a $log; git -C /repo worktree remove --force $WT; exit 3; }
build; brc=$?
(cd $WT && ctest --test-dir _build -j8 --timeout 900 2>&1 | tail -3) >> $log 2>&1
tests_ok=$(grep -c "100% tests passed" $log)
bash $S/run_demo.sh $WT $WT/_build >> $log 2>&1; patched_rc=$?
echo "patched demo rc=$patched_rc tests_ok=$tests_ok" >> $log
echo "$NAME: clean_demo_rc=$clean_rc patched_demo_rc=$patched_rc tests_pass=$tests_ok  (worktree kept patched at $WT for the checks)"
