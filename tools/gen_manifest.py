#!/usr/bin/env python3
"""Regenerates /verif/MANIFEST.json from props/*.py (MANIFEST dict per module) and
tools/not_applicable.json.  Run after adding or changing a check."""
import importlib
import json
import os
import sys

HERE = os.path.dirname(os.path.dirname(os.path.abspath(__file__)))
sys.path.insert(0, HERE)

ALL = ["C%02d" % i for i in range(1, 21)]


def main():
    with open(os.path.join(HERE, "tools", "not_applicable.json")) as f:
        na = json.load(f)
    checks = []
    claimed = []
    for pid in ALL:
        p = os.path.join(HERE, "props", pid.lower() + ".py")
        if not os.path.exists(p):
            continue
        mod = importlib.import_module("props." + pid.lower())
        m = getattr(mod, "MANIFEST", None)
        if not m:
            continue
        claimed.append(pid)
        checks.append({
            "property_id": pid,
            "quick_cmd": "./check %s --tier quick" % pid,
            "thorough_cmd": "./check %s --tier thorough" % pid,
            "evidence_file": "/verif/evidence/%s.json" % pid,
            "replay_cmd_template": "./check %s --replay {path}" % pid,
            "engine": "cbmc-contracts",
            "level_claimed": m["level_claimed"],
            "level_note": m["level_note"],
            "technique": m["technique"],
        })
    man = {
        "version": 1,
        "setup_cmd": "./setup.sh",
        "hooks": {
            "guard": "NINJA_VERIF",
            "enable": "no source hooks: contracts are sidecars injected into slices extracted from /repo/src on every run; "
                      "native replays #include / compile the real .cc files",
            "baseline_off_cmd": "cmake -S /repo -B /repo/_build -G Ninja >/dev/null && cmake --build /repo/_build >/dev/null && ctest --test-dir /repo/_build -j8 --timeout 900",
            "source_commits": [],
            "add_only": True,
        },
        "engines": [{
            "name": "cbmc-contracts",
            "path": "/verif/check",
            "serves_properties": claimed,
            "kind_free_text": "contract-based deductive verification with CBMC 6.11: sidecar contracts + harnesses on code sliced "
                              "from /repo/src each run; goto-instrument --dfcc for C units (function and loop contracts), "
                              "assume/assert contract harnesses and contract stubs for C++ units; bounded runs are labelled bounded",
        }],
        "checks": checks,
        "notes": "exit 2 = undecided (tool limit, timeout, slice breakage); never reported as a violation. Known findings (genuine defects still in /repo) are listed in /verif/known_findings.json with native demonstrations under /verif/findings/; fixed ones are listed there too. See DESIGN.md.",
        "not_applicable": [{"property_id": k, "reason": v} for k, v in sorted(na.items()) if k not in claimed],
    }
    missing = [p for p in ALL if p not in claimed and p not in na]
    if missing:
        print("no reason for", missing)
        return 1
    with open(os.path.join(HERE, "MANIFEST.json"), "w") as f:
        json.dump(man, f, indent=1)
    print("claimed:", claimed)
    return 0


if __name__ == "__main__":
    sys.exit(main())
