/* Shadow of graph.h / state.h / build.h collaborators for the Plan, dirty-scan and cleaner units (Route B).
 * Only the members those units touch.  Spellings are conformance-checked against the real headers on every run
 * (props/planunit.py:check_shadow).  Differences that the CBMC C++ front end forces (DESIGN 2.1b):
 *   - default member initialisers are replaced by constructors (F-a / L15)
 *   - accessors returning `const std::string&` / `const std::vector<T>&` return non-const references (L12)
 * Ghost members start with vf_.  Callee CONTRACT STUBS (Pool, EdgePriorityQueue, Status, Jobserver) record calls. */
#ifndef NINJA_GRAPH_H_
#define NINJA_GRAPH_H_
#include <assert.h>
#include <stddef.h>
#include <stdint.h>
#include <string>
#include <vector>
#include <set>
#include <map>
typedef int64_t TimeStamp;
struct Edge; struct Pool; struct Rule; struct BindingEnv; struct Node; struct DiskInterface;
bool nondet_bool(); int nondet_int();
static int vf_dirty_writes = 0;            /* ghost: number of writes to any Node::dirty_ */
struct Jobserver {
  struct Slot { int v; Slot() : v(-1) {} bool IsValid() const { return v >= 0; } };
};
struct Node {
  Node() : slash_bits_(0), mtime_(-1), exists_(ExistenceStatusUnknown), dirty_(false), dyndep_pending_(false),
           generated_by_dep_loader_(true), id_(-1), in_edge_(0) {}
  enum ExistenceStatus { ExistenceStatusUnknown, ExistenceStatusMissing, ExistenceStatusExists };
  bool exists() const { return exists_ == ExistenceStatusExists; }
  bool status_known() const { return exists_ != ExistenceStatusUnknown; }
  std::string& path() const { return const_cast<Node*>(this)->path_; }
  TimeStamp mtime() const { return mtime_; }
  bool dirty() const { return dirty_; }
  void set_dirty(bool dirty) { vf_dirty_writes++; dirty_ = dirty; }
  void MarkDirty() { vf_dirty_writes++; dirty_ = true; }
  bool dyndep_pending() const { return dyndep_pending_; }
  void set_dyndep_pending(bool pending) { dyndep_pending_ = pending; }
  Edge* in_edge() const { return in_edge_; }
  void set_in_edge(Edge* edge) { in_edge_ = edge; }
  bool generated_by_dep_loader() const { return generated_by_dep_loader_; }
  void set_generated_by_dep_loader(bool value) { generated_by_dep_loader_ = value; }
  int id() const { return id_; }
  void set_id(int id) { id_ = id; }
  std::vector<Edge*>& out_edges() const { return const_cast<Node*>(this)->out_edges_; }
  std::vector<Edge*>& validation_out_edges() const { return const_cast<Node*>(this)->validation_out_edges_; }
  void AddOutEdge(Edge* edge) { out_edges_.push_back(edge); }
  void UpdatePhonyMtime(TimeStamp mtime);
  bool Stat(DiskInterface* disk_interface, std::string* err);
  bool StatIfNecessary(DiskInterface* disk_interface, std::string* err) {
    if (status_known())
      return true;
    return Stat(disk_interface, err);
  }
  std::string path_;
  uint64_t slash_bits_;
  TimeStamp mtime_;
  ExistenceStatus exists_;
  bool dirty_;
  bool dyndep_pending_;
  bool generated_by_dep_loader_;
  int id_;
  Edge* in_edge_;
  std::vector<Edge*> out_edges_;
  std::vector<Edge*> validation_out_edges_;
};
struct Edge {
  enum VisitMark { VisitNone, VisitInStack, VisitDone };
  Edge() : rule_(0), pool_(0), dyndep_(0), env_(0), id_(0), critical_path_weight_(-1), mark_(VisitNone), outputs_ready_(false),
           deps_loaded_(false), deps_missing_(false), generated_by_dep_loader_(false), command_start_time_(0),
           implicit_deps_(0), order_only_deps_(0), implicit_outs_(0), vf_phony(false), vf_console(false), vf_restat(false), vf_generator(false), vf_phonycycle(false) {}
  bool AllInputsReady() const;
  int64_t critical_path_weight() const { return critical_path_weight_; }
  void set_critical_path_weight(int64_t critical_path_weight) { critical_path_weight_ = critical_path_weight; }
  const Rule* rule_;
  Pool* pool_;
  std::vector<Node*> inputs_;
  std::vector<Node*> outputs_;
  std::vector<Node*> validations_;
  Node* dyndep_;
  BindingEnv* env_;
  size_t id_;
  int64_t critical_path_weight_;
  Jobserver::Slot job_slot_;
  VisitMark mark_;
  bool outputs_ready_;
  bool deps_loaded_;
  bool deps_missing_;
  bool generated_by_dep_loader_;
  TimeStamp command_start_time_;
  Pool* pool() const { return pool_; }
  int weight() const { return 1; }
  bool outputs_ready() const { return outputs_ready_; }
  int implicit_deps_;
  int order_only_deps_;
  bool is_implicit(size_t index) { return index >= inputs_.size() - order_only_deps_ - implicit_deps_ && !is_order_only(index); }
  bool is_order_only(size_t index) { return index >= inputs_.size() - order_only_deps_; }
  int implicit_outs_;
  bool is_implicit_out(size_t index) const { return index >= outputs_.size() - implicit_outs_; }
  /* callee contracts: is_phony()/use_console() are pure functions of the edge's rule/pool; ghost fields carry their value */
  bool is_phony() const { return vf_phony; }
  bool use_console() const { return vf_console; }
  bool vf_phony, vf_console;
#ifdef VF_EDGE_BINDINGS
  /* callee contracts of the binding accessors (EdgeEnv / BindingEnv are under contract in C16): pure functions of the edge; ghost fields carry their values */
  std::string vf_deps, vf_depfile, vf_rspfile, vf_rspfile_content, vf_command;
  std::string GetBinding(const char* key) const;
  bool GetBindingBool(const char* key) const;
  std::string GetUnescapedDepfile() const { return vf_depfile; }
  std::string GetUnescapedRspfile() const { return vf_rspfile; }
  std::string EvaluateCommand(bool incl_rsp_file = false) const { (void)incl_rsp_file; return vf_command; }
#endif
  bool vf_restat, vf_generator;
  bool maybe_phonycycle_diagnostic() const { return vf_phonycycle; }      /* callee contract: a pure function of the edge (phony, one output, no inputs before the parser's filter) */
  bool vf_phonycycle;
};
/* ---- contract stub of EdgePriorityQueue (std::priority_queue<Edge*>): a bag; top() is some element ---- */
#ifndef VF_Q_CAP
#define VF_Q_CAP 6
#endif
struct EdgePriorityQueue {
  Edge* d_[VF_Q_CAP]; int n_; int vf_pushes;
  EdgePriorityQueue() : n_(0), vf_pushes(0) {}
  void push(Edge* e);                      /* defined per unit: carries the C04 obligation */
  bool empty() const { return n_ == 0; }
  size_t size() const { return (size_t)n_; }
  Edge* top() const { __CPROVER_assert(n_ > 0, "std::priority_queue precondition: top() of a non-empty queue"); return d_[n_ - 1]; }
  void pop() { __CPROVER_assert(n_ > 0, "std::priority_queue precondition: pop() of a non-empty queue"); n_--; }
  void clear() { n_ = 0; }
  bool vf_has(const Edge* e) const { bool r = false; for (int i = 0; i < VF_Q_CAP; i++) if (i < n_ && d_[i] == e) r = true; return r; }
};
/* ---- contract stub of Pool (state.h); the real Pool is under contract in C06 ---- */
struct Pool {
  Pool() : depth_(0), vf_scheduled(0), vf_finished(0), vf_delayed(0), vf_retrieved(0), vf_last(0) {}
  int depth_;
  int vf_scheduled, vf_finished, vf_delayed, vf_retrieved; Edge* vf_last;
  bool ShouldDelayEdge() const { return depth_ != 0; }
  void EdgeScheduled(const Edge& edge) { vf_scheduled++; vf_last = (Edge*)&edge; }
  void EdgeFinished(const Edge& edge) { vf_finished++; vf_last = (Edge*)&edge; }
  void DelayEdge(Edge* edge);              /* defined per unit: carries the C04 obligation */
  void RetrieveReadyEdges(EdgePriorityQueue* ready_queue) { (void)ready_queue; vf_retrieved++; }   /* contract (C06): moves only edges that were delayed */
};
#endif
