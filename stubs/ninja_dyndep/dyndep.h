/* Shadow of dyndep.h for the dyndep-parser unit: Dyndeps and DyndepFile as in the real header (regex conformance),
 * without the loader and explanations.h. */
#ifndef NINJA_DYNDEP_LOADER_H_
#define NINJA_DYNDEP_LOADER_H_
#include <utility>
#include <stddef.h>
#include <string>
#include <vector>
struct Edge;
struct Node;
struct State;
struct Dyndeps {
  Dyndeps() : used_(false), restat_(false) {}
  /* spelled-out copy operations (the real struct has the implicit ones): CBMC does not instantiate vector<T>::operator= when it is
     only needed by an implicitly generated assignment operator */
  Dyndeps(const Dyndeps& o) : used_(o.used_), restat_(o.restat_), implicit_inputs_(o.implicit_inputs_), implicit_outputs_(o.implicit_outputs_) {}
  Dyndeps& operator=(const Dyndeps& o) {
    used_ = o.used_; restat_ = o.restat_; implicit_inputs_ = o.implicit_inputs_; implicit_outputs_ = o.implicit_outputs_;
    return *this;
  }
  bool used_;
  bool restat_;
  std::vector<Node*> implicit_inputs_;
  std::vector<Node*> implicit_outputs_;
};
/* real: `struct DyndepFile: public std::map<Edge*, Dyndeps> {};`  CBMC's front end cannot instantiate the constructor of a class-template
 * base ("std::map<...>::map(this) was not found"), so the shadow spells the same interface out as a non-template class with the
 * semantics of stubs/std/map (unique keys, insert reports whether the key was new). */
#ifndef VF_MAP_CAP
#define VF_MAP_CAP 4
#endif
struct DyndepFile {
  typedef Edge* key_type;
  typedef Dyndeps mapped_type;
  typedef std::pair<Edge*, Dyndeps> value_type;
  typedef value_type* iterator;
  typedef const value_type* const_iterator;
  value_type d_[VF_MAP_CAP];
  size_t n_;
  DyndepFile() : n_(0) {}
  size_t size() const { return n_; }
  bool empty() const { return n_ == 0; }
  iterator begin() { return d_; }
  iterator end() { return d_ + n_; }
  iterator find(Edge* k) {
    for (size_t i = 0; i < n_; i++) if (d_[i].first == k) return d_ + i;
    return d_ + n_;
  }
  std::pair<iterator, bool> insert(const value_type& v) {
    iterator it = find(v.first);
    if (it != end()) return std::pair<iterator, bool>(it, false);
    __CPROVER_assert(n_ < VF_MAP_CAP, "model capacity: DyndepFile::insert");
    __CPROVER_assume(n_ < VF_MAP_CAP);
    d_[n_] = v;
    n_++;
    return std::pair<iterator, bool>(d_ + (n_ - 1), true);
  }
};
#endif
