/* Shadow of eval_env.h for the dyndep-parser unit: EvalString is opaque to the parser (it only asks empty() and Evaluate()). */
#ifndef NINJA_EVAL_ENV_H_
#define NINJA_EVAL_ENV_H_
#include <string>
#include "string_piece.h"
struct Env { int vf_dummy; };
struct BindingEnv : public Env { BindingEnv() {} };
bool nondet_bool();
struct EvalString {
  bool vf_empty;
  bool vf_eval_empty;     /* does it evaluate to the empty string? (contract stub: any value) */
  EvalString() : vf_empty(true), vf_eval_empty(true) {}
  bool empty() const { return vf_empty; }
  std::string Evaluate(Env* env) const {
    (void)env;
    if (vf_empty || vf_eval_empty) return std::string();
    return std::string("p");
  }
};
#endif
