/* Shadow of graph.h for the dyndep-parser unit. */
#ifndef NINJA_GRAPH_H_
#define NINJA_GRAPH_H_
#include <string>
struct Edge { int vf_id; };
struct Node {
  Edge* in_edge_;
  Node() : in_edge_(0) {}
  Edge* in_edge() const { return in_edge_; }
};
#endif
