/* Shadow of state.h for the dyndep-parser unit.  Contract stubs: LookupNode returns NULL or one of the nodes of the graph (any of
 * them, with or without a producing edge); GetNode returns some node. */
#ifndef NINJA_STATE_H_
#define NINJA_STATE_H_
#include <stdint.h>
#include "graph.h"
#include "string_piece.h"
int nondet_int();
struct State {
  Node nodes_[3];
  Edge edges_[2];
  State() { nodes_[0].in_edge_ = &edges_[0]; nodes_[1].in_edge_ = &edges_[1]; nodes_[2].in_edge_ = 0; }
  Node* LookupNode(StringPiece path) const {
    (void)path;
    int k = nondet_int();
    if (k < 0 || k > 2) return 0;
    return (Node*)&nodes_[k];
  }
  Node* GetNode(StringPiece path, uint64_t slash_bits) {
    (void)path; (void)slash_bits;
    int k = nondet_int();
    __CPROVER_assume(k >= 0 && k <= 2);
    return &nodes_[k];
  }
};
#endif
