/* Shadow <string.h> for units that are used unmodified (whole real .cc files): the real header first, then the byte-loop models
 * of libc_mem.h take over the names (CBMC has no memchr model and its built-in memmove/memset crawl on symbolic lengths). */
#ifndef VF_SHADOW_STRING_H_
#define VF_SHADOW_STRING_H_
#include_next <string.h>
#include "libc_mem.h"
#endif
