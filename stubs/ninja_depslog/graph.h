/* Shadow of graph.h for the deps-log unit: the members deps_log.cc touches.
 * Real: `const std::string& path() const`, `int id() const`, `void set_id(int)`, `int id_ = -1`.
 * (L12: CBMC rejects a member function returning const std::string&; the accessor is non-const here.)
 * Conformance is checked by regex against the real header on every run (props/c09.py:check_shadow). */
#ifndef NINJA_GRAPH_H_
#define NINJA_GRAPH_H_
#include <string>
#include <stdint.h>
struct Edge;
struct Node {
  std::string path_;
  int id_;
  Node() : id_(-1) {}
  std::string& path() { return path_; }
  int id() const { return id_; }
  void set_id(int id) { id_ = id; }
  Edge* in_edge() const { return 0; }
};
#endif
