/* Shadow of state.h for the deps-log unit.  Contract of State::GetNode (read off state.cc):
 * returns the node whose path equals `path` if one exists, else a fresh node with that path,
 * id -1; equal paths give the same node, different paths different nodes. */
#ifndef NINJA_STATE_H_
#define NINJA_STATE_H_
#include <string>
#include "graph.h"
#include "string_piece.h"
#ifndef VF_STATE_CAP
#define VF_STATE_CAP 6
#endif
struct State;
/* loop in a zero-argument member so that its loop id has no comma (see stubs/std/vector) */
struct vf_state_lookup {
  Node* pool; int n; StringPiece path; Node* found;
  void run() {
    found = 0;
    for (int k = 0; k < n; k++) {
      if (found == 0 && pool[k].path_.size() == path.len_ && vf_s_eq(pool[k].path_.d_, path.str_, path.len_)) found = &pool[k];
    }
  }
};
struct State {
  Node pool_[VF_STATE_CAP];
  int n_;
  State() : n_(0) {}
  Node* GetNode(StringPiece path, uint64_t slash_bits) {
    (void)slash_bits;
    vf_state_lookup j; j.pool = pool_; j.n = n_; j.path = path; j.run();
    if (j.found) return j.found;
    __CPROVER_assert(n_ < VF_STATE_CAP, "model capacity: State node pool");
    __CPROVER_assume(n_ < VF_STATE_CAP);
    Node* n = &pool_[n_++];
    n->path_ = std::string(path.str_, path.len_);
    n->id_ = -1;
    return n;
  }
};
#endif
