/* Shadow of metrics.h: timing statistics are irrelevant to the contracts. */
#ifndef NINJA_METRICS_H_
#define NINJA_METRICS_H_
#define METRIC_RECORD(name)
#define METRIC_RECORD_IF(name, cond)
#endif
