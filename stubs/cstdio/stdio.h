/* Shadow <stdio.h> for CBMC runs: an in-memory single-file file system.
 * One file (whatever path is given), contents vf_file_data[0..vf_file_len).
 * fwrite appends (the units under contract open with "ab"); fread reads at the
 * stream position.  TRUSTED model of libc; lengths are explicit, bytes arbitrary. */
#ifndef VF_STDIO_H_
#define VF_STDIO_H_
#include <stddef.h>
#ifdef __cplusplus
extern "C" {
#endif
#ifndef VF_FILE_CAP
#define VF_FILE_CAP 64
#endif
#ifndef NULL
#define NULL 0
#endif
#define EOF (-1)
#define SEEK_SET 0
#define SEEK_CUR 1
#define SEEK_END 2
#define _IOFBF 0
#define _IOLBF 1
#define _IONBF 2
typedef struct vf_FILE {
  size_t pos;
  int eof;
  int err;
  int writable;
  int open;
} FILE;
extern FILE* stdout;
extern FILE* stderr;

static unsigned char vf_file_data[VF_FILE_CAP];
static size_t vf_file_len = 0;
static int vf_file_exists = 0;
static int vf_file_unlinked = 0;
static FILE vf_handles[4];
static int vf_handles_used = 0;
static int vf_errno_cell;
#ifndef errno
#define errno vf_errno_cell
#endif
#ifndef ENOENT
#define ENOENT 2
#define ERANGE 34
#endif

static FILE* fopen(const char* path, const char* mode) {
  (void)path;
  __CPROVER_assert(vf_handles_used < 4, "model capacity: open FILE handles");
  __CPROVER_assume(vf_handles_used < 4);
  if (mode[0] == 'r') {
    if (!vf_file_exists) { errno = ENOENT; return (FILE*)0; }
  } else {
    vf_file_exists = 1;
  }
  FILE* f = &vf_handles[vf_handles_used++];
  f->pos = 0; f->eof = 0; f->err = 0; f->open = 1;
  f->writable = mode[0] != 'r';
  if (mode[0] == 'w') vf_file_len = 0;
  return f;
}
static int fclose(FILE* f) {
  __CPROVER_assert(f != 0 && f->open, "stdio precondition: fclose on an open stream");
  f->open = 0;
  return 0;
}
static size_t fread(void* p, size_t sz, size_t n, FILE* f) {
  __CPROVER_assert(f != 0 && f->open, "stdio precondition: fread on an open stream");
  unsigned char* d = (unsigned char*)p;
  if (sz == 0 || n == 0) return 0;
  __CPROVER_assert(n == 1, "model capacity: fread item count 1");
  size_t avail = vf_file_len - f->pos;
  size_t take = sz <= avail ? sz : avail;
  for (size_t i = 0; i < take; i++) d[i] = vf_file_data[f->pos + i];
  f->pos += take;
  if (take < sz) { f->eof = 1; return 0; }
  return 1;
}
static size_t fwrite(const void* p, size_t sz, size_t n, FILE* f) {
  __CPROVER_assert(f != 0 && f->open && f->writable, "stdio precondition: fwrite on a stream open for writing");
  const unsigned char* s = (const unsigned char*)p;
  if (sz == 0 || n == 0) return 0;
  __CPROVER_assert(n == 1, "model capacity: fwrite item count 1");
  __CPROVER_assert(vf_file_len + sz <= VF_FILE_CAP, "model capacity: in-memory file size");
  __CPROVER_assume(vf_file_len + sz <= VF_FILE_CAP);
  for (size_t i = 0; i < sz; i++) vf_file_data[vf_file_len + i] = s[i];   /* append mode */
  vf_file_len += sz;
  f->pos = vf_file_len;
  return 1;
}
static int fflush(FILE* f) { __CPROVER_assert(f != 0 && f->open, "stdio precondition: fflush on an open stream"); return 0; }
static int feof(FILE* f) { return f->eof; }
static int ferror(FILE* f) { return f->err; }
static long ftell(FILE* f) { return (long)(f->writable ? vf_file_len : f->pos); }
static int fseek(FILE* f, long off, int whence) {
  if (whence == SEEK_END) f->pos = vf_file_len + off; else if (whence == SEEK_SET) f->pos = off; else f->pos += off;
  f->eof = 0;
  return 0;
}
static int setvbuf(FILE* f, char* b, int mode, size_t sz) { (void)f; (void)b; (void)mode; (void)sz; return 0; }
static int fileno(FILE* f) { (void)f; return 3; }
int printf(const char* fmt, ...);
int fprintf(FILE* f, const char* fmt, ...);
int snprintf(char* s, size_t n, const char* fmt, ...);
#ifdef __cplusplus
}
#endif
#endif
