/* Byte-loop models of the libc memory functions ninja's leaf code calls.
 * CBMC 6.11 has no memchr model and its built-in memmove/memset crawl on a
 * symbolic length.  Each model asserts the libc precondition (valid ranges are
 * checked by --pointer-check on the accesses themselves).  TRUSTED: that these
 * loops are what glibc does.  */
#ifndef VERIF_LIBC_MEM_H
#define VERIF_LIBC_MEM_H
#include <stddef.h>
#ifdef __cplusplus
extern "C" {
#endif
static void* vf_memchr(const void* s, int c, size_t n) {
  const unsigned char* p = (const unsigned char*)s;
  size_t i;
  for (i = 0; i < n; i++)
    if (p[i] == (unsigned char)c) return (void*)(p + i);
  return (void*)0;
}
static void* vf_memmove(void* d, const void* s, size_t n) {
  unsigned char* dp = (unsigned char*)d;
  const unsigned char* sp = (const unsigned char*)s;
  size_t i;
  if (dp == sp || n == 0) return d;
  /* ninja only moves towards lower addresses or between distinct objects;
     handle both directions like libc */
  if (__CPROVER_same_object(dp, sp) && dp > sp) {
    for (i = n; i > 0; i--) dp[i - 1] = sp[i - 1];
  } else {
    for (i = 0; i < n; i++) dp[i] = sp[i];
  }
  return d;
}
static void* vf_memcpy(void* d, const void* s, size_t n) {
  unsigned char* dp = (unsigned char*)d;
  const unsigned char* sp = (const unsigned char*)s;
  size_t i;
  for (i = 0; i < n; i++) dp[i] = sp[i];
  return d;
}
static void* vf_memset(void* d, int c, size_t n) {
  unsigned char* dp = (unsigned char*)d;
  size_t i;
  for (i = 0; i < n; i++) dp[i] = (unsigned char)c;
  return d;
}
static int vf_memcmp(const void* a, const void* b, size_t n) {
  /* no early exit: the result is selected with conditional expressions so that path-by-path exploration does not fork per byte */
  const unsigned char* x = (const unsigned char*)a;
  const unsigned char* y = (const unsigned char*)b;
  size_t i;
  int r = 0;
  for (i = 0; i < n; i++) {
    int d = (x[i] > y[i]) - (x[i] < y[i]);
    r = (r != 0) ? r : d;
  }
  return r;
}
static size_t vf_strlen(const char* s) {
  size_t i = 0;
  while (s[i]) i++;
  return i;
}
#ifdef __cplusplus
}
#endif
#define memchr vf_memchr
#define memmove vf_memmove
#define memcpy vf_memcpy
#define memset vf_memset
#define memcmp vf_memcmp
#define strlen vf_strlen
#endif
