"""Mechanical extraction of definitions from /repo/src and declared lowerings.

Nothing here edits /repo.  Every run re-reads the current working-tree file.
A wanted definition that cannot be found raises SliceError -> the check exits 2
("undecided"), never 1.
"""
import os
import re

REPO = os.environ.get("VERIF_REPO", "/repo")


class SliceError(Exception):
    pass


def read_src(rel):
    p = os.path.join(REPO, rel)
    try:
        with open(p, "r", encoding="utf-8", errors="surrogateescape") as f:
            return f.read()
    except OSError as e:
        raise SliceError("cannot read %s: %s" % (p, e))


def _skip_noncode(text, i):
    """If text[i] starts a comment / string / char literal, return the index
    just past it, else return i."""
    n = len(text)
    c = text[i]
    if c == '/' and i + 1 < n:
        if text[i + 1] == '/':
            j = text.find('\n', i)
            return n if j < 0 else j
        if text[i + 1] == '*':
            j = text.find('*/', i + 2)
            if j < 0:
                raise SliceError("unterminated comment")
            return j + 2
    if c == '"' or c == "'":
        # raw strings are not used in the sliced units
        j = i + 1
        while j < n:
            if text[j] == '\\':
                j += 2
                continue
            if text[j] == c:
                return j + 1
            if text[j] == '\n':
                break
            j += 1
        raise SliceError("unterminated literal at offset %d" % i)
    return i


def match_close(text, i, open_ch='{', close_ch='}'):
    """text[i] == open_ch; return index of the matching close_ch."""
    assert text[i] == open_ch, (text[i:i + 20], open_ch)
    depth = 0
    n = len(text)
    while i < n:
        j = _skip_noncode(text, i)
        if j != i:
            i = j
            continue
        c = text[i]
        if c == open_ch:
            depth += 1
        elif c == close_ch:
            depth -= 1
            if depth == 0:
                return i
        i += 1
    raise SliceError("unbalanced %s" % open_ch)


def find_code(text, pattern, start=0):
    """regex search that ignores matches starting inside comments/literals."""
    rx = re.compile(pattern, re.S)
    pos = start
    # build a mask of code positions lazily: walk and test
    i = start
    n = len(text)
    spans = []  # non-code spans
    while i < n:
        j = _skip_noncode(text, i)
        if j != i:
            spans.append((i, j))
            i = j
        else:
            i += 1
    for m in rx.finditer(text, start):
        s = m.start()
        if any(a <= s < b for a, b in spans):
            continue
        return m
    return None


def function_span(text, sig_regex, start=0):
    """Locate a function *definition* whose header matches sig_regex (which
    must end at or before the opening '(' of the parameter list ... we then
    find the parameter list's ')' and require a '{' (optionally after
    const/noexcept/ctor-initialisers) after it).  Returns (hdr_start,
    brace_open, brace_close)."""
    pos = start
    while True:
        m = find_code(text, sig_regex, pos)
        if not m:
            raise SliceError("definition not found: /%s/" % sig_regex)
        # parameter list
        p = text.find('(', m.start())
        if p < 0:
            raise SliceError("no parameter list after /%s/" % sig_regex)
        q = match_close(text, p, '(', ')')
        k = q + 1
        # skip whitespace, 'const', ctor initialiser list up to '{' or ';'
        depth = 0
        body = None
        while k < len(text):
            j = _skip_noncode(text, k)
            if j != k:
                k = j
                continue
            ch = text[k]
            if ch == '(':
                k = match_close(text, k, '(', ')') + 1
                continue
            if ch == ';':
                break  # a declaration, look further
            if ch == '{':
                body = k
                break
            k += 1
        if body is None:
            pos = m.end()
            continue
        end = match_close(text, body)
        return m.start(), body, end


def extract_function(rel, sig_regex, start=0):
    text = read_src(rel)
    a, b, c = function_span(text, sig_regex, start)
    return text[a:c + 1]


def extract_block(rel, start_regex, open_ch='{'):
    """Extract from the regex match start to the close of the first open_ch
    after it (struct/class/enum/namespace definitions), plus a trailing ';'."""
    text = read_src(rel)
    m = find_code(text, start_regex)
    if not m:
        raise SliceError("block not found: /%s/ in %s" % (start_regex, rel))
    b = text.find(open_ch, m.end() - 1)
    e = match_close(text, b)
    k = e + 1
    while k < len(text) and text[k] in ' \t\n':
        k += 1
    if k < len(text) and text[k] == ';':
        e = k
    return text[m.start():e + 1]


def extract_lines(rel, start_regex, end_regex):
    """Verbatim text from the line matching start_regex to the line matching
    end_regex (inclusive)."""
    text = read_src(rel)
    m = re.search(start_regex, text, re.M)
    if not m:
        raise SliceError("start not found: /%s/ in %s" % (start_regex, rel))
    m2 = re.compile(end_regex, re.M).search(text, m.end())
    if not m2:
        raise SliceError("end not found: /%s/ in %s" % (end_regex, rel))
    a = text.rfind('\n', 0, m.start()) + 1
    b = text.find('\n', m2.end())
    return text[a:b + 1]


# ---------------------------------------------------------------- lowerings

class Lowering:
    """A declared token rewrite.  Counts its firings; must_fire is checked by
    the caller."""

    def __init__(self, name, pattern, repl, why, flags=0):
        self.name, self.rx, self.repl, self.why = name, re.compile(pattern, flags), repl, why

    def apply(self, text):
        out, n = self.rx.subn(self.repl, text)
        return out, n


def _lower_static_cast(text):
    """L1: static_cast<T>(e) -> (T)(e)   (scalar / pointer casts only)."""
    n = 0
    out = []
    i = 0
    rx = re.compile(r'\b(?:static_cast|reinterpret_cast|const_cast)\s*<')
    while True:
        m = rx.search(text, i)
        if not m:
            out.append(text[i:])
            break
        out.append(text[i:m.start()])
        # find matching '>' (no nested templates with comparison ops expected)
        depth = 0
        k = m.end() - 1
        while k < len(text):
            if text[k] == '<':
                depth += 1
            elif text[k] == '>':
                depth -= 1
                if depth == 0:
                    break
            k += 1
        ty = text[m.end():k]
        p = text.find('(', k)
        if text[k + 1:p].strip() != '':
            raise SliceError("L1: unexpected text after cast type")
        q = match_close(text, p, '(', ')')
        out.append('((%s)(%s))' % (ty.strip(), text[p + 1:q]))
        i = q + 1
        n += 1
    return ''.join(out), n


LOWERINGS = {
    'L1': (_lower_static_cast, "static_cast<T>(e) -> ((T)(e)); identical for scalar/pointer casts"),
    'L2': (lambda t: re.subn(r'(?<![\w:])::(?=(?:memchr|memmove|memcpy|memset|memcmp|strlen|strchr|read|close|write|open)\s*\()', '', t),
           "::libc_fn( -> libc_fn( ; same function"),
    'L3': (lambda t: re.subn(r'\bnamespace\s*\{', 'namespace vf_anon {} using namespace vf_anon; namespace vf_anon {', t),
           "anonymous namespace -> named namespace + using-directive; only linkage changes"),
    'L4': (lambda t: re.subn(r'\busing\s+(\w+)\s*=\s*([^;]+);', r'typedef \2 \1;', t),
           "alias-declaration -> typedef"),
    'L5': (lambda t: re.subn(r'\s+override\b', '', t),
           "'override' removed"),
    'L6': (lambda t: re.subn(r'\bstd::move\s*\(', '(', t),
           "std::move(e) -> (e): copy instead of move; same observable value in the model library"),
    'L10': (lambda t: re.subn(r'\bassert\(([^;]*?)\s*&&\s*"[^"]*"\)', r'assert(\1)', t),
            "assert(c && \"text\") -> assert(c)"),
}


def lower(text, rules, must_fire=()):
    """Apply the named lowerings; returns (text, {rule: firings}).  A rule in
    must_fire that does not fire raises SliceError (the source changed shape:
    undecided, not a pass)."""
    counts = {}
    for r in rules:
        fn, _why = LOWERINGS[r]
        text, n = fn(text)
        counts[r] = n
    for r in must_fire:
        if counts.get(r, 0) == 0:
            raise SliceError("lowering %s expected to fire but did not" % r)
    return text, counts


# ------------------------------------------------------- contract injection

def inject_function_contract(func_text, contract):
    """Insert `contract` between the parameter list and the body of the
    function definition `func_text` (Route A, C mode)."""
    p = func_text.find('(')
    q = match_close(func_text, p, '(', ')')
    b = func_text.find('{', q)
    if func_text[q + 1:b].strip() not in ('', 'const'):
        raise SliceError("unexpected text between signature and body: %r" % func_text[q + 1:b])
    return func_text[:q + 1] + '\n' + contract.rstrip() + '\n' + func_text[b:]


def loop_headers(func_text):
    """Yield (ordinal, kind, index_after_header) for each for/while loop in
    textual order (do-while bodies are reported as kind 'do' at the closing
    while's ')')."""
    res = []
    i = 0
    n = len(func_text)
    ordinal = 0
    rx = re.compile(r'\b(for|while)\b')
    while i < n:
        j = _skip_noncode(func_text, i)
        if j != i:
            i = j
            continue
        m = rx.match(func_text, i)
        if m and (i == 0 or not (func_text[i - 1].isalnum() or func_text[i - 1] == '_')):
            p = func_text.find('(', m.end())
            q = match_close(func_text, p, '(', ')')
            # a 'while' that closes a do-statement is followed by ';'
            k = q + 1
            while k < n and func_text[k] in ' \t\n':
                k += 1
            is_do_tail = (m.group(1) == 'while' and k < n and func_text[k] == ';'
                          and func_text[:i].rstrip().endswith('}'))
            if not is_do_tail:
                res.append((ordinal, m.group(1), q + 1))
                ordinal += 1
            i = q + 1
            continue
        i += 1
    return res


def inject_loop_contracts(func_text, contracts):
    """contracts: {ordinal: text}.  Inserted right after the loop header's
    closing parenthesis.  All ordinals must exist (else SliceError)."""
    hdrs = loop_headers(func_text)
    have = {o for o, _k, _p in hdrs}
    for o in contracts:
        if o not in have:
            raise SliceError("loop ordinal %d not found (function has %d loops)" % (o, len(hdrs)))
    out = func_text
    for o, _k, pos in sorted(hdrs, key=lambda h: -h[2]):
        if o in contracts:
            out = out[:pos] + '\n' + contracts[o].rstrip() + '\n' + out[pos:]
    return out, len(hdrs)
