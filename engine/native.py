"""Native builds of the real ninja sources for counterexample replay (g++, ASan+UBSan).
Built in the run's scratch directory from /repo's current working tree; only done when an
obligation failed (or for the selftests of the model library)."""
import concurrent.futures as cf
import os
import subprocess

from . import slicer

LIB_SOURCES = """build_log.cc build.cc clean.cc clparser.cc dyndep.cc dyndep_parser.cc debug_flags.cc deps_log.cc disk_interface.cc
edit_distance.cc elide_middle.cc eval_env.cc explanations.cc graph.cc graphviz.cc jobserver.cc json.cc line_printer.cc
manifest_parser.cc metrics.cc missing_deps.cc parser.cc real_command_runner.cc state.cc status_printer.cc string_piece_util.cc
util.cc version.cc depfile_parser.cc lexer.cc subprocess-posix.cc jobserver-posix.cc""".split()

SAN = ["-fsanitize=address,undefined", "-fno-sanitize=alignment", "-fno-sanitize-recover=undefined", "-fno-omit-frame-pointer"]


def build_libninja(scratch, sanitize=True):
    d = os.path.join(scratch, "libninja_san" if sanitize else "libninja")
    lib = os.path.join(d, "libninja.a")
    if os.path.exists(lib):
        return lib
    os.makedirs(d, exist_ok=True)
    src = os.path.join(slicer.REPO, "src")
    flags = ["-std=c++17", "-O1", "-g", "-I", src] + (SAN if sanitize else [])

    def cc(f):
        o = os.path.join(d, f.replace(".cc", ".o"))
        p = subprocess.run(["g++"] + flags + ["-c", os.path.join(src, f), "-o", o], capture_output=True, timeout=600)
        if p.returncode != 0:
            raise RuntimeError("native build failed for %s: %s" % (f, p.stderr.decode()[-500:]))
        return o
    with cf.ThreadPoolExecutor(max_workers=16) as ex:
        objs = list(ex.map(cc, LIB_SOURCES))
    subprocess.run(["ar", "rcs", lib] + objs, check=True, capture_output=True)
    return lib


def build_driver(scratch, name, source_text, extra_includes=(), sanitize=True):
    lib = build_libninja(scratch, sanitize)
    d = os.path.join(scratch, "native_" + name)
    os.makedirs(d, exist_ok=True)
    exe = os.path.join(d, "replay")
    if os.path.exists(exe):
        return exe, d
    with open(os.path.join(d, "replay.cc"), "w") as f:
        f.write(source_text)
    src = os.path.join(slicer.REPO, "src")
    cmd = ["g++", "-std=c++17", "-O1", "-g", "-I", src] + [x for i in extra_includes for x in ("-I", i)] + \
          (SAN if sanitize else []) + ["replay.cc", lib, "-o", "replay"]
    p = subprocess.run(cmd, cwd=d, capture_output=True, timeout=600)
    if p.returncode != 0:
        raise RuntimeError("native driver build failed: %s" % p.stderr.decode()[-800:])
    return exe, d
