"""Run goto-cc / goto-instrument / cbmc under timeout + ulimit and classify
every reported obligation."""
import json
import os
import resource
import subprocess
import time


class Undecided(Exception):
    """Tool limit, timeout, harness bug: exit 2, never a violation."""


def _limits(mem_gb):
    def f():
        b = int(mem_gb * (1 << 30))
        resource.setrlimit(resource.RLIMIT_AS, (b, b))
        os.setsid()
    return f


def run(cmd, cwd, timeout, mem_gb=8, stdout_path=None):
    t0 = time.time()
    out = open(stdout_path, "wb") if stdout_path else subprocess.PIPE
    try:
        p = subprocess.Popen(cmd, cwd=cwd, stdout=out, stderr=subprocess.PIPE,
                             preexec_fn=_limits(mem_gb))
        try:
            so, se = p.communicate(timeout=timeout)
        except subprocess.TimeoutExpired:
            try:
                os.killpg(p.pid, 9)
            except OSError:
                pass
            p.wait()
            raise Undecided("timeout after %ds: %s" % (timeout, " ".join(cmd[:6])))
    finally:
        if stdout_path:
            out.close()
    return p.returncode, (so or b"").decode("utf-8", "replace"), se.decode("utf-8", "replace"), time.time() - t0


def compile_steps(steps, cwd, timeout=300):
    """steps: list of argv lists (goto-cc, goto-instrument).  Any non-zero exit
    is Undecided (front-end limit or slice breakage), with the tool's message."""
    log = []
    for cmd in steps:
        rc, so, se, dt = run(cmd, cwd, timeout)
        log.append({"cmd": " ".join(cmd), "rc": rc, "s": round(dt, 2)})
        if rc != 0:
            msg = (so + se).strip().splitlines()
            # keep first error lines
            keep = [l for l in msg if 'error' in l.lower() or 'rror:' in l][:6] or msg[-8:]
            raise Undecided("%s failed (rc=%d): %s" % (cmd[0], rc, " | ".join(keep)))
    return log


CANARY = "canary:"


def parse_json_ui(path):
    with open(path, "r", errors="replace") as f:
        txt = f.read()
    try:
        data = json.loads(txt)
    except ValueError:
        # cbmc killed mid-output
        raise Undecided("cbmc output not valid JSON (killed / out of memory?)")
    results, status, msgs = None, None, []
    for item in data:
        if "result" in item:
            results = item["result"]
        elif "cProverStatus" in item:
            status = item["cProverStatus"]
        elif "messageText" in item:
            msgs.append((item.get("messageType"), item["messageText"]))
    return results, status, msgs


def classify(r):
    """Return one of: canary, unwinding, capacity, technical_ub, internal, user."""
    d = r.get("description", "")
    sl = r.get("sourceLocation", {}) or {}
    cls = sl.get("propertyClass", "") or r.get("property", "")
    if d.startswith(CANARY):
        return "canary"
    if "unwinding assertion" in d or cls == "unwind" or ".unwind." in r.get("property", "") \
            or "recursion unwinding" in d:
        return "unwinding"
    if d.startswith("model capacity"):
        return "capacity"
    if d.startswith("pointer relation: pointer outside object bounds"):
        # forming/comparing a pointer beyond one-past-the-end: no access (DESIGN 3.4)
        return "technical_ub"
    if d.startswith("arithmetic overflow on unsigned to signed type conversion") or \
            d.startswith("arithmetic overflow on signed to unsigned type conversion") or \
            d.startswith("arithmetic overflow on signed type conversion") or d.startswith("arithmetic overflow on unsigned type conversion"):
        # integer-to-integer narrowing / sign change: implementation-defined (modular on every target ninja supports), not UB;
        # only float-to-integer conversions are undefined when out of range.  Appears only in runs that use --conversion-check.
        return "technical_ub"
    f = sl.get("file", "")
    if f.startswith("<builtin-library") or f.startswith("<built-in"):
        return "internal"
    return "user"


import re as _re

_HDR = _re.compile(r'^(\S.*) function (\S+)$')
_RES = _re.compile(r'^\[(.+?)\] (?:line (\d+) )?(.*): (SUCCESS|FAILURE|UNKNOWN|ERROR)$')


def parse_text_results(txt):
    """Plain-text UI (the JSON/XML UIs crash in CBMC 6.11 while serialising some C++ counterexample
    values: 'Invariant check failed ... expr.type() == typet{}').  Returns a list shaped like the
    JSON result list."""
    results = []
    i = txt.find("** Results:")
    if i < 0:
        return None
    cur_file, cur_fn = "?", "?"
    for line in txt[i:].splitlines():
        m = _RES.match(line)
        if m:
            results.append({"property": m.group(1), "description": m.group(3), "status": m.group(4),
                            "sourceLocation": {"file": cur_file, "function": cur_fn, "line": m.group(2) or "?"}})
            continue
        h = _HDR.match(line)
        if h:
            cur_file, cur_fn = h.group(1), h.group(2)
    return results


def run_cbmc(argv, cwd, out_path, timeout, mem_gb):
    rc, _so, se, dt = run(argv, cwd, timeout, mem_gb, stdout_path=out_path)
    with open(out_path, "r", errors="replace") as f:
        txt = f.read()
    if rc not in (0, 10):
        tail = " ".join(l for l in (txt[-3000:] + se[-1500:]).splitlines() if ("rror" in l or "nvariant" in l or "Reason" in l or "Condition" in l))
        raise Undecided("cbmc rc=%d (%s) %s" % (rc, " ".join(argv[:3]), tail[-500:]))
    results = parse_text_results(txt)
    if results is None:
        raise Undecided("cbmc produced no result list (rc=%d)" % rc)
    msgs = [("WARNING", l) for l in txt.splitlines() if "ignoring" in l]
    for m in _re.finditer(r'no body for (?:function|callee) (\S+)', txt):
        if not m.group(1).startswith("nondet_"):
            msgs.append(("NOBODY", m.group(1)))
    return results, dt, msgs


_ASSIGN = _re.compile(r'^  (\S.*?)=(.*?)(?: \(([01 ?]+)\))?$')
_STATE = _re.compile(r'^State \d+ (?:file (\S+) )?(?:function (\S+) )?(?:line (\d+) )?')


def trace_values_text(txt, prop_id):
    """Ordered list of (lhs, value, binary, function, line) from the plain-text trace of prop_id."""
    key = "Trace for %s:" % prop_id
    i = txt.find(key)
    if i < 0:
        return None
    j = txt.find("\nTrace for ", i + 10)
    k = txt.find("\n** ", i + 10)
    end = min(x for x in (j, k, len(txt)) if x > 0)
    vals = []
    fn, ln = None, None
    for line in txt[i:end].splitlines():
        st = _STATE.match(line)
        if st:
            fn, ln = st.group(2), st.group(3)
            continue
        m = _ASSIGN.match(line)
        if m:
            b = m.group(3)
            if b is not None:
                b = b.replace(" ", "")
                if "?" in b:
                    b = None
            vals.append((m.group(1), m.group(2), b, fn, ln))
    return vals


def show_properties(argv, cwd):
    out = os.path.join(cwd, "props.json")
    rc, _so, se, _dt = run(argv + ["--show-properties", "--json-ui"], cwd, 600, 8, stdout_path=out)
    if rc != 0:
        raise Undecided("cbmc --show-properties rc=%d %s" % (rc, se[-300:]))
    with open(out, "r", errors="replace") as f:
        data = json.load(f)
    for item in data:
        if "properties" in item:
            return item["properties"]
    raise Undecided("no property list")
