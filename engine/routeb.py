"""Helpers for Route B (C++ units: real text + model std library + contract harness)."""
import os

from .core import VERIF

STD = os.path.join(VERIF, "stubs", "std")
CHECKS = ["--bounds-check", "--pointer-check", "--signed-overflow-check", "--undefined-shift-check",
          "--div-by-zero-check", "--drop-unused-functions"]


def gotocc_cpp(sources, defines=(), includes=(), out="a.gb", function="harness"):
    cmd = ["goto-cc", "-std=c++11"]
    for d in defines:
        cmd.append("-D" + d)
    for i in includes:
        cmd += ["-I", i]
    cmd += list(sources) + ["--function", function, "-o", out]
    return cmd


def cbmc_argv(gb="a.gb", unwind=None, unwindset=None, object_bits=None, extra=()):
    a = ["cbmc", gb] + CHECKS
    if unwind is not None:
        a += ["--unwind", str(unwind)]
    if unwindset:
        a += ["--unwindset", ",".join("%s:%d" % kv for kv in unwindset.items())]
    a += ["--unwinding-assertions"]
    if object_bits:
        a += ["--object-bits", str(object_bits)]
    a += list(extra)
    return a
