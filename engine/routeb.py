"""Helpers for Route B (C++ units: real text + model std library + contract harness)."""
import os

from .core import VERIF

STD = os.path.join(VERIF, "stubs", "std")
CHECKS = ["--bounds-check", "--pointer-check", "--signed-overflow-check", "--undefined-shift-check",
          "--div-by-zero-check", "--drop-unused-functions"]


def gotocc_cpp(sources, defines=(), includes=(), out="a.gb", function="harness"):
    cmd = ["goto-cc", "-std=c++11"]
    for d in defines:
        cmd.append("-D" + d)
    for i in includes:
        cmd += ["-I", i]
    cmd += list(sources) + ["--function", function, "-o", out]
    return cmd


def cbmc_argv(gb="a.gb", unwind=None, unwindset=None, object_bits=None, extra=()):
    a = ["cbmc", gb] + CHECKS
    if unwind is not None:
        a += ["--unwind", str(unwind)]
    if unwindset:
        a += ["--unwindset", ",".join("%s:%d" % kv for kv in unwindset.items())]
    a += ["--unwinding-assertions"]
    if object_bits:
        a += ["--object-bits", str(object_bits)]
    a += list(extra)
    return a


def unwindset_from_loops(d, gb, rules, checks_flags=("--drop-unused-functions",)):
    """Build a --unwindset value from `cbmc --show-loops`: rules = [(substring, bound)], first match wins.
    Loop ids that contain a comma cannot be named on the command line (CBMC splits the option at
    commas); they fall under the global --unwind bound."""
    import json
    from . import cbmc as C
    out = os.path.join(d, "loops.json")
    rc, _so, se, _dt = C.run(["cbmc", gb] + list(checks_flags) + ["--show-loops", "--json-ui"], d, 300, 8, stdout_path=out)
    if rc != 0:
        raise C.Undecided("cbmc --show-loops failed: %s" % se[-200:])
    with open(out) as f:
        data = json.load(f)
    loops = []
    for item in data:
        if "loops" in item:
            loops = item["loops"]
    us, unnamed = [], []
    for lp in loops:
        name = lp["name"]
        if "," in name:
            unnamed.append(name)
            continue
        for sub, bound in rules:
            if sub in name:
                us.append("%s:%d" % (name, bound))
                break
    return ",".join(us), unnamed


def mirrored_string_piece():
    """L22: string_piece.h with the two in-class `friend bool operator==/!=` DEFINITIONS turned into free inline functions after the
    class.  CBMC's C++ front end silently ignores friend functions defined inside a class body and falls back to a built-in
    comparison of the struct (measured: StringPiece("x") == StringPiece("x") at different addresses is false).  Same functions,
    same bodies, found by the same lookup."""
    import re
    from . import slicer
    h = slicer.read_src("src/string_piece.h")
    rx = re.compile(r'  friend bool operator(==|!=)\(\s*const StringPiece& lhs, const StringPiece& rhs\) \{(.*?)\n  \}\n', re.S)
    bodies = rx.findall(h)
    if len(bodies) != 2:
        raise slicer.SliceError("L22 expected two friend operator definitions in string_piece.h, found %d" % len(bodies))
    h = rx.sub("", h)
    free = "".join("inline bool operator%s(const StringPiece& lhs, const StringPiece& rhs) {%s\n}\n" % (op, body) for op, body in bodies)
    k = h.rindex("#endif")
    return h[:k] + free + "\n" + h[k:]
