"""Mutation self-test: every seeded edit of the *sliced copy* (never of /repo)
must fail a named obligation.  A surviving mutant means the check is too weak;
an undecided mutant is reported separately."""
import json
import os
import time

from . import core
from .slicer import SliceError


def subst(old, new, count=1):
    def f(text):
        if old not in text:
            raise SliceError("selftest mutant: pattern not found: %r" % old)
        return text.replace(old, new, count)
    f.desc = "%r -> %r" % (old, new)
    return f


def run(mod, tier):
    res = []
    t0 = time.time()
    for name, fn in mod.MUTANTS:
        rc, out = core.run_property(mod, tier, mutant=fn, quiet=True)
        failed = []
        if out:
            failed = sorted({"%s::%s" % (j.name, ob["desc"][:80]) for j, ob, _p, _r in out["violations"]})[:5]
        res.append({"mutant": name, "edit": getattr(fn, "desc", ""), "rc": rc, "killed": rc == 1, "failed_obligations": failed})
        print("SELFTEST %s %s: %s" % (mod.ID, name, "killed" if rc == 1 else ("SURVIVED" if rc == 0 else "undecided")))
    # mutant replays are not evidence of a violation of /repo: remove them
    d = os.path.join(core.VERIF, "replays", mod.ID)
    if os.path.isdir(d):
        for f in os.listdir(d):
            os.unlink(os.path.join(d, f))
    if os.environ.get("VERIF_ONLY") or os.environ.get("VERIF_REPO"):
        print("(development run: VERIF_ONLY/VERIF_REPO set - selftest summary not written)")
        return 0 if all(r["killed"] for r in res) else 3
    os.makedirs(os.path.join(core.VERIF, "evidence"), exist_ok=True)
    with open(os.path.join(core.VERIF, "evidence", "%s.selftest.json" % mod.ID), "w") as f:
        json.dump({"property_id": mod.ID, "tier": tier, "mutants": res, "killed": sum(r["killed"] for r in res),
                   "total": len(res), "wall_s": round(time.time() - t0, 1)}, f, indent=1)
    return 0 if all(r["killed"] for r in res) else 3
