"""Front-end assumption canaries.  CBMC 6.11's C++ front end silently mis-translates several constructs (DESIGN.md 2.1b).  The lowerings and
model headers work around them; this run asserts, on every check that uses Route B, the positive facts those work-arounds rely on.
Every assertion must be discharged, otherwise the check is UNDECIDED (exit 2): a pass of the real obligations would mean nothing."""
import os

from .core import Job, VERIF
from .routeb import gotocc_cpp, cbmc_argv, STD, mirrored_string_piece
from . import slicer

SRC = r'''
#include <string>
#include <vector>
#include <algorithm>
#include <string.h>
#include "string_piece.h"
using namespace std;   /* like every ninja .cc file; the front end has no argument-dependent lookup, so std::operator+ etc. are only found this way */
extern "C" {
static void vf_fill(void* p, int n) { for (int i = 0; i < n; i++) ((unsigned char*)p)[i] = (unsigned char)(i + 1); }
}
struct WithCtor { int a; int b; WithCtor() : a(7), b(-1) {} };
struct Cmp { bool operator()(int x, int y) const { return x < y; } };
static Cmp vf_f_Cmp;
unsigned char nondet_uchar();
extern "C" void harness() {
  /* arrays with literal bounds keep their writes, also through void* parameters and casts */
  char buf[32];
  vf_fill(buf, 8);
  __CPROVER_assert(buf[0] == 1 && buf[7] == 8, "frontend: array passed as void* is written");
  int* w = reinterpret_cast<int*>(&buf[0]);
  __CPROVER_assert(w[1] == 0x08070605, "frontend: reinterpret_cast<int*>(&buf[0]) reads the bytes (little endian)");
  unsigned u = *reinterpret_cast<unsigned*>(buf + 1);
  __CPROVER_assert(u == 0x05040302, "frontend: unaligned word read through reinterpret_cast");
  /* constructors run */
  WithCtor c;
  __CPROVER_assert(c.a == 7 && c.b == -1, "frontend: mem-initialisers of an explicit constructor are applied");
  __CPROVER_assert(vf_f_Cmp(1, 2) && !vf_f_Cmp(2, 1), "frontend: static functor object (L19) works");
  /* model std::string */
  std::string s("ab");
  s += 'c'; s.append("de"); s.push_back((char)0); s += "f";
  __CPROVER_assert(s.size() == 7 && s[2] == 'c' && s[5] == 0 && s[6] == 'f' && s.c_str()[7] == 0, "frontend: std::string model basics (embedded NUL, terminator)");
  std::string sub = s.substr(1, 3);
  __CPROVER_assert(sub == "bcd" && s.find('d') == 3 && s.find("cd") == 2, "frontend: substr/find");
  std::string sx("x");
  std::string sxy("xy");
  std::string se;
  std::string cat = sx + "y";
  __CPROVER_assert(cat == sxy && se.empty(), "frontend: operator+ / ==");
  /* StringPiece equality is the user-defined one (L22) and std::find uses it (no ADL in the front end) */
  char text[8] = {'x', ' ', 'x', ' ', 'y', 0, 0, 0};
  StringPiece a(text, 1), b(text + 2, 1), y(text + 4, 1);
  __CPROVER_assert(a == b && a != y, "frontend: StringPiece operator== compares contents (L22)");
  std::vector<StringPiece> v;
  v.push_back(a); v.push_back(y);
  __CPROVER_assert(std::find(v.begin(), v.end(), b) == v.begin(), "frontend: std::find uses the user-defined operator==");
  StringPiece blank(text + 1, 1);
  __CPROVER_assert(std::find(v.begin(), v.end(), blank) == v.end(), "frontend: std::find reports absence");
  __CPROVER_assert(v.size() == 2 && v[1].len_ == 1 && v.back().str_ == text + 4, "frontend: std::vector model basics");
  /* symbolic data really is symbolic */
  unsigned char z = nondet_uchar();
  if (z == 200) __CPROVER_assert(0, "canary: nondet byte can be 200");
  if (z == 0) __CPROVER_assert(0, "canary: nondet byte can be 0");
  __CPROVER_assert(0, "canary: end of harness reachable");
}
'''


def job():
    def build(d):
        with open(os.path.join(d, "string_piece.h"), "w") as f:
            f.write(mirrored_string_piece())
        with open(os.path.join(d, "util.h"), "w") as f:
            f.write(slicer.read_src("src/util.h"))
        with open(os.path.join(d, "fe.cc"), "w") as f:
            f.write(SRC)
        steps = [gotocc_cpp(["fe.cc"], defines=["VF_STR_CAP=16", "VF_VEC_CAP=4"],
                            includes=[d, os.path.join(VERIF, "stubs", "cstring"), STD, os.path.join(VERIF, "stubs")])]
        return steps, cbmc_argv(unwind=20)
    return Job("frontend.assumptions", build, "proof", timeout=300, canaries=3, functions=["(CBMC C++ front end + model library canaries)"], weight=0.01,
               bound=None)
