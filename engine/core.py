"""Property runner: jobs -> obligations -> verdict, evidence, replay."""
import concurrent.futures as cf
import hashlib
import json
import os
import re
import shutil
import sys
import tempfile
import time
import traceback

from . import cbmc
from .cbmc import Undecided
from .slicer import SliceError

VERIF = os.path.dirname(os.path.dirname(os.path.abspath(__file__)))
NCPU = int(os.environ.get("VERIF_JOBS", "16"))


class Job:
    """One verifier run (= one group of obligations).

    build(scratch_dir) must create the translation units and return
    (compile_steps, cbmc_argv_without_json_flag).  `strength` is 'proof' when
    the run has no unwinding bound (loop-free, or every loop closed by a
    discharged loop contract) and 'bounded' otherwise.
    """

    def __init__(self, name, build, strength, timeout=600, mem_gb=8, bound=None,
                 inputs=(), canaries=1, functions=(), backend="sat(minisat)", sample=None,
                 weight=1.0, note=None):
        self.name, self.build, self.strength = name, build, strength
        self.timeout, self.mem_gb, self.bound = timeout, mem_gb, bound
        self.inputs, self.canaries, self.functions = inputs, canaries, functions
        self.backend, self.sample, self.weight, self.note = backend, sample, weight, note
        # filled in by run
        self.obligations = []
        self.failed = []
        self.technical_ub = []
        self.wall = 0.0
        self.solver_s = 0.0
        self.error = None
        self.dir = None
        self.argv = None
        self.lowerings = {}
        self.assumes = []
        self.unknown = []


_CANCEL = {"on": False}


def _run_job(job, scratch, stop_on_fail=False):
    if stop_on_fail and _CANCEL["on"]:
        job.error = "skipped: a violation was already found (mutant mode)"
        job.skipped = True
        return job
    d = os.path.join(scratch, re.sub(r'[^A-Za-z0-9_.-]', '_', job.name))
    os.makedirs(d, exist_ok=True)
    job.dir = d
    t0 = time.time()
    try:
        built = job.build(d)
        steps, argv = built[0], built[1]
        cbmc.compile_steps(steps, d)
        if len(built) > 2 and built[2]:
            argv = built[2](d, argv)   # post-compile hook (e.g. --unwindset from --show-loops)
        # 1. enumerate the obligations the instrumented program carries
        plist = cbmc.show_properties(argv, d)
        selected = []
        for pr in plist:
            if cbmc.classify({"description": pr.get("description", ""), "property": pr["name"],
                              "sourceLocation": pr.get("sourceLocation", {})}) == "technical_ub":
                job.technical_ub.append({"id": pr["name"], "desc": pr.get("description", ""),
                                         "loc": _loc({"sourceLocation": pr.get("sourceLocation", {})})})
            elif getattr(job, "clause_filter", None) is not None and re.match(r'(post|pre|invariant)\b', pr.get("description", "")) \
                    and re.search(r'\bC\d\d\b', pr.get("description", "")) and not job.clause_filter.search(pr.get("description", "")):
                # a contract clause that belongs to another property's check of the same unit (shared units: Plan, dirty scan):
                # decided there, not here
                job.other_clauses = getattr(job, "other_clauses", 0) + 1
            else:
                selected.append(pr["name"])
        job.argv_base = argv
        job.argv = argv + [x for n in selected for x in ("--property", n)]
        # 2. decide them (the filtered class is turned into skips, so it cannot
        #    cut paths through CBMC's assert-then-assume treatment of fatal checks)
        out = os.path.join(d, "result.txt")
        results, dt, msgs = cbmc.run_cbmc(job.argv, d, out, job.timeout, job.mem_gb)
        job.solver_s = dt
        for mt, m in msgs:
            if 'ignoring' in m and ('forall' in m or 'exists' in m or 'quantif' in m):
                raise Undecided("back end ignored a quantifier: " + m)
        if getattr(job, "strict_bodies", False):
            nb = sorted({m for mt, m in msgs if mt == "NOBODY"})
            if nb:
                raise Undecided("functions without a body would be havocked silently: %s" % ", ".join(nb)[:300])
        canaries_failed = 0
        canaries_total = 0
        unknown = []
        unwinding_failed = None
        capacity_failed = None
        for r in results:
            k = cbmc.classify(r)
            ob = {"id": r["property"], "desc": r.get("description", ""), "status": r["status"],
                  "class": k, "loc": _loc(r)}
            if k == "canary":
                canaries_total += 1
                if r["status"] == "FAILURE":
                    canaries_failed += 1
                continue
            if k == "unwinding":
                if r["status"] == "FAILURE":
                    unwinding_failed = ob
                continue
            if k == "capacity":
                if r["status"] == "FAILURE":
                    capacity_failed = ob
                continue
            job.obligations.append(ob)
            if r["status"] == "FAILURE":
                job.failed.append(ob)
            elif r["status"] != "SUCCESS":
                unknown.append(ob)
        if unwinding_failed and not job.failed:
            raise Undecided("unwinding assertion failed (bound too small: harness bug): %s %s" % (
                unwinding_failed["id"], unwinding_failed["loc"]))
        if capacity_failed and not job.failed:
            raise Undecided("model capacity exceeded: %s" % capacity_failed["desc"])
        job.unknown = unknown
        if not job.failed:
            if unknown:
                raise Undecided("%d obligations reported %s with no failure" % (len(unknown), unknown[0]["status"]))
            if canaries_total < job.canaries:
                raise Undecided("expected %d canaries, found %d (harness changed?)" % (job.canaries, canaries_total))
            if canaries_failed != canaries_total:
                raise Undecided("canary unreachable (%d/%d reachable): vacuous harness" % (canaries_failed, canaries_total))
        n_user = sum(1 for o in job.obligations if o["class"] == "user")
        if n_user == 0:
            raise Undecided("zero user obligations generated")
    except (Undecided, SliceError) as e:
        job.error = "%s: %s" % (type(e).__name__, e)
    except Exception as e:  # engine bug: undecided, loudly
        job.error = "EngineError: %s\n%s" % (e, traceback.format_exc())
    job.wall = time.time() - t0
    if job.failed:
        _CANCEL["on"] = True
    return job


def _loc(r):
    sl = r.get("sourceLocation", {}) or {}
    return "%s:%s:%s" % (os.path.basename(sl.get("file", "?")), sl.get("function", "?"), sl.get("line", "?"))


def get_trace(job, ob):
    """Re-run cbmc for one failed obligation with --trace; returns value list."""
    out = os.path.join(job.dir, "trace_%s.txt" % re.sub(r'\W', '_', ob["id"]))
    try:
        results, _dt, _ = cbmc.run_cbmc(job.argv_base + ["--trace", "--property", ob["id"]],
                                        job.dir, out, min(job.timeout, max(300, int(3 * job.solver_s) + 60)), job.mem_gb)
    except Undecided as e:
        return None, "trace run undecided: %s" % e
    with open(out, "r", errors="replace") as f:
        txt = f.read()
    for r in results:
        if r["property"] == ob["id"] and r["status"] == "FAILURE":
            vals = cbmc.trace_values_text(txt, ob["id"])
            if vals is None:
                return None, "no trace text for the failed obligation"
            return vals, None
    return None, "trace run did not reproduce the failure (it may depend on a fatal check that was filtered)"


def extract_inputs(vals, names, fn_prefer=("harness", "vacuity")):
    """Last assigned value per wanted lhs (exact name or 'name[' prefix for arrays).  Assignments made inside the
    harness win over assignments to a same-named parameter/local of the unit under contract."""
    got, pref = {}, {}
    for lhs, data, binary, fn, line in vals:
        if lhs is None:
            continue
        base = lhs.split('[')[0].split('.')[0]
        if base in names or lhs in names:
            got[lhs] = (data, binary)
            if fn in fn_prefer:
                pref[lhs] = (data, binary)
    got.update(pref)
    return got


def array_from(got, name, n, default=0):
    """Rebuild a byte array `name[0..n)` from extracted values."""
    out = [default] * n
    for lhs, (data, binary) in got.items():
        m = re.match(r'^%s\[(\d+)l?\]$' % re.escape(name), lhs)
        if m and binary is not None:
            i = int(m.group(1))
            if i < n:
                out[i] = int(binary, 2) & 0xFF
    # whole-array assignment `name = {...}`
    return out


def scalar_from(got, name, default=None, signed_bits=None):
    v = got.get(name)
    if not v or v[1] is None:
        return default
    x = int(v[1], 2)
    if signed_bits and x >= 1 << (signed_bits - 1):
        x -= 1 << signed_bits
    return x


# ------------------------------------------------------------ known findings

def load_known():
    p = os.path.join(VERIF, "known_findings.json")
    if not os.path.exists(p):
        return {"findings": [], "fixed": []}
    with open(p) as f:
        return json.load(f)


def match_known(known, pid, job, ob, signature):
    for k in known.get("findings", []):
        if k.get("property") != pid:
            continue
        if not re.search(k["job"], job.name):
            continue
        if not re.search(k["obligation"], ob["desc"] + " @" + ob["loc"]):
            continue
        if k.get("signature") and (signature is None or not re.search(k["signature"], signature)):
            continue
        return k
    return None


# ------------------------------------------------------------------- driver

def run_property(mod, tier, seed=0, mutant=None, keep=False, quiet=False):
    pid = mod.ID
    t0 = time.time()
    scratch = tempfile.mkdtemp(prefix="verif_%s_" % pid, dir=os.environ.get("VERIF_SCRATCH"))
    rc = 0
    try:
        try:
            jobs = mod.jobs(tier, mutant=mutant)
        except (SliceError, Undecided) as e:
            print("UNDECIDED property=%s reason=%s" % (pid, e))
            return 2, None
        if getattr(mod, "USES_CPP", False):
            from . import frontend
            jobs = [frontend.job()] + list(jobs)
        only = os.environ.get("VERIF_ONLY")     # development aid: run a subset of the runs (never used by registered commands)
        if only:
            jobs = [j for j in jobs if re.search(only, j.name)]
        # heavier jobs first for better packing
        _CANCEL["on"] = False
        if mutant:
            order = sorted(jobs, key=lambda j: j.weight)   # cheapest first, stop at first kill
        else:
            order = sorted(jobs, key=lambda j: -j.weight)  # heaviest first for packing
        with cf.ThreadPoolExecutor(max_workers=NCPU) as ex:
            list(ex.map(lambda j: _run_job(j, scratch, stop_on_fail=bool(mutant)), order))
        if mutant:
            jobs = [j for j in jobs if not getattr(j, "skipped", False)]
        known = load_known()
        violations, known_hits, undecided = [], [], []
        trace_budget = 0 if mutant else 3
        for j in sorted(jobs, key=lambda j: j.weight):
            if j.error:
                undecided.append(j)
                continue
            for ob in j.failed[:1] if trace_budget > 0 else []:
                k0 = match_known(known, pid, j, ob, None)
                if k0 and not k0.get("signature"):
                    continue        # listed by run + obligation alone: no counterexample needed to recognise it (handled below)
                trace_budget -= 1
                vals, terr = get_trace(j, ob)
                rep = {"property": pid, "job": j.name, "obligation": ob, "verifier": "cbmc 6.11.0",
                       "cbmc_argv": " ".join(j.argv_base) + " (+ --property for every obligation except the filtered class)",
                       "bound": j.bound, "trace_error": terr}
                sig = None
                reproduced = None
                if vals is not None and hasattr(mod, "replay"):
                    try:
                        sig, reproduced, detail = mod.replay(j, ob, vals, scratch)
                        rep.update(detail)
                    except Exception as e:
                        rep["replay_error"] = "%s" % e
                if vals is not None:
                    rep["trace_tail"] = [[a, b] for a, b, _c, _d, _e in vals[-60:]]
                rep["reproduced_on_real_code"] = reproduced
                k = match_known(known, pid, j, ob, sig)
                if k:
                    known_hits.append((k, j, ob, sig))
                    continue
                os.makedirs(os.path.join(VERIF, "replays", pid), exist_ok=True)
                h = hashlib.sha1((j.name + ob["id"]).encode()).hexdigest()[:8]
                path = os.path.join(VERIF, "replays", pid, "%s_%s.json" % (re.sub(r'\W+', '_', j.name)[:60], h))
                with open(path, "w") as f:
                    json.dump(rep, f, indent=1, default=str)
                violations.append((j, ob, path, reproduced))
            # failures that were not traced are still violations (unless listed as known
            # by job+obligation alone, i.e. without an input signature)
            traced = {v[1]["id"] for v in violations if v[0] is j} | {h[2]["id"] for h in known_hits if h[1] is j}
            for ob in j.failed:
                if ob["id"] in traced:
                    continue
                k = match_known(known, pid, j, ob, None)
                if k:
                    known_hits.append((k, j, ob, None))
                else:
                    violations.append((j, ob, None, None))
        if not mutant:
            for k, j, ob, sig in known_hits:
                print("KNOWN-FINDING: property=%s %s [run %s, obligation: %s]" % (pid, k["what"][:220], j.name, ob["desc"][:90]))
        first_path = None
        printed = set()
        violations.sort(key=lambda v: (v[2] is None, v[0].weight))
        if violations and violations[0][2] is None:
            # no trace could be produced at all: the replay file still names the obligation
            j, ob, _p, _r = violations[0]
            os.makedirs(os.path.join(VERIF, "replays", pid), exist_ok=True)
            path0 = os.path.join(VERIF, "replays", pid, "%s_untraced.json" % re.sub(r'\W+', '_', j.name)[:60])
            with open(path0, "w") as f:
                json.dump({"property": pid, "job": j.name, "obligation": ob, "verifier": "cbmc 6.11.0",
                           "cbmc_argv": " ".join(getattr(j, "argv_base", None) or []), "reproduced_on_real_code": None}, f, indent=1)
            violations[0] = (j, ob, path0, None)
        byjob = {}
        for j, ob, path, reproduced in violations:
            e = byjob.setdefault(j.name, {"path": None, "repro": None, "obs": [], "w": j.weight})
            e["obs"].append(ob)
            if path and not e["path"]:
                e["path"], e["repro"] = path, reproduced
        with_path = [(n, e) for n, e in byjob.items() if e["path"]]
        without = [(n, e) for n, e in byjob.items() if not e["path"]]
        for name, e in sorted(with_path, key=lambda kv: kv[1]["w"]):
            tail = "" if e["repro"] else " no-failing-input-found"
            print("VIOLATION property=%s replay=%s%s" % (pid, e["path"], tail))
            for ob in e["obs"][:3]:
                print("  failed obligation: run=%s id=%s desc=%s loc=%s" % (name, ob["id"], ob["desc"][:140], ob["loc"]))
            if len(e["obs"]) > 3:
                print("  ... and %d more failed obligations in this run" % (len(e["obs"]) - 3))
        for name, e in sorted(without, key=lambda kv: kv[1]["w"])[:8]:
            print("  also failed (not traced): run=%s %d obligations, first: %s" % (name, len(e["obs"]), e["obs"][0]["desc"][:100]))
        if len(without) > 8:
            print("  ... and %d more runs with failed obligations" % (len(without) - 8))
        for j in undecided:
            print("UNDECIDED property=%s job=%s %s" % (pid, j.name, (j.error or "").splitlines()[0][:400]))
        if violations:
            rc = 1
        elif undecided:
            rc = 2
        wall = time.time() - t0
        ev = None
        from . import slicer as _sl
        dev_run = bool(os.environ.get("VERIF_ONLY")) or os.path.realpath(_sl.REPO) != "/repo"
        if not mutant and not dev_run:
            ev = write_evidence(mod, tier, seed, jobs, violations, known_hits, undecided, wall)
        elif dev_run:
            print("(development run: VERIF_ONLY/VERIF_REPO set - evidence file not rewritten)")
        if not quiet:
            nob = sum(len(j.obligations) for j in jobs)
            nd = sum(1 for j in jobs for o in j.obligations if o["status"] == "SUCCESS")
            print("%s tier=%s jobs=%d obligations=%d discharged=%d violations=%d known=%d undecided=%d wall=%.1fs" % (
                pid, tier, len(jobs), nob, nd, len(violations), len(known_hits), len(undecided), wall))
        return rc, {"violations": violations, "undecided": undecided, "jobs": jobs}
    finally:
        if keep:
            print("scratch kept at", scratch)
        else:
            shutil.rmtree(scratch, ignore_errors=True)


def write_evidence(mod, tier, seed, jobs, violations, known_hits, undecided, wall):
    pid = mod.ID
    info = mod.describe(tier)
    obligations = sum(len(j.obligations) for j in jobs)
    discharged = sum(1 for j in jobs for o in j.obligations if o["status"] == "SUCCESS")
    user_obl = sum(1 for j in jobs for o in j.obligations if o["class"] == "user")
    proof_jobs = [j for j in jobs if j.strength == "proof"]
    bounded_jobs = [j for j in jobs if j.strength != "proof"]
    all_proof = bool(jobs) and not bounded_jobs
    level = "proof" if all_proof else "other"
    distinct = set()
    for j in jobs:
        for o in j.obligations:
            if o["class"] == "user":
                distinct.add((j.name, o["id"]))
    samples = []
    for j in jobs[:400]:
        s = {"run": j.name, "strength": j.strength, "bound": j.bound, "backend": j.backend,
             "obligations": len(j.obligations),
             "discharged": sum(1 for o in j.obligations if o["status"] == "SUCCESS"),
             "wall_s": round(j.wall, 1), "solver_s": round(j.solver_s, 1)}
        if j.error:
            s["undecided"] = j.error.splitlines()[0][:300]
        if j.lowerings:
            s["lowerings_fired"] = j.lowerings
        if j.technical_ub:
            s["technical_ub_not_counted"] = [o["desc"] + " @" + o["loc"] for o in j.technical_ub][:6]
        user = [o for o in j.obligations if o["class"] == "user"]
        s["example_obligations"] = [o["desc"][:120] + " @" + o["loc"] + " -> " + o["status"] for o in user[:6]]
        samples.append(s)
    cov = {
        "obligations": obligations,
        "discharged": discharged,
        "user_obligations": user_obl,
        "evaluations": len(jobs),
        "distinct_nontrivial": len(distinct),
        "rule": "evaluations = verifier runs (one per unit x bound x cell); distinct_nontrivial = distinct "
                "(run, obligation) pairs of class 'user' (postconditions, asserted library preconditions, bounds, "
                "dereference, overflow) actually generated and decided in this run; verifier-internal obligations and canaries are not counted",
        "checker_cmd": info.get("checker_cmd", "goto-cc; goto-instrument --dfcc; cbmc (see samples[].run)"),
        "trusted_base": info.get("trusted_base", []),
        "functions_under_contract": info.get("functions", []),
        "proof_runs": len(proof_jobs),
        "bounded_runs": len(bounded_jobs),
        "bounds": info.get("bounds", {}).get(tier),
        "solver_time_s": round(sum(j.solver_s for j in jobs), 1),
        "backends": sorted({j.backend for j in jobs}),
        "samples": samples,
        "exhaustive": False,
        "silent_clauses": info.get("silent", []),
        "explanation": info.get("explanation", ""),
        "known_findings_hit": [k["what"] for k, _j, _o, _s in known_hits],
        "undecided_runs": [j.name for j in undecided],
    }
    ev = {
        "property_id": pid, "tier": tier, "seed": int(seed), "level": level,
        "coverage": cov,
        "assumptions": info.get("assumptions", []),
        "wall_s": round(wall, 2),
        "violations": len(violations),
    }
    os.makedirs(os.path.join(VERIF, "evidence"), exist_ok=True)
    p = os.path.join(VERIF, "evidence", "%s.json" % pid)
    with open(p, "w") as f:
        json.dump(ev, f, indent=1)
    return ev
