/* RFC 8259 section 7 string *body* (the text between the quotes): validity and
 * decoding.  Written from the RFC grammar, independent of json.cc.
 *
 *   char      = unescaped / escape ( %x22 / %x5C / %x2F / %x62 / %x66 / %x6E / %x72 / %x74 / %x75 4HEXDIG )
 *   unescaped = %x20-21 / %x23-5B / %x5D-10FFFF
 *
 * Bytes >= 0x80 are accepted verbatim (whether they form UTF-8 is a property
 * of the *input* command text, not of the encoder; stated as an assumption).
 * \uXXXX is decoded to one byte when XXXX < 0x80 and to UTF-8 otherwise.
 * Returns the decoded length, or -1 if the body is not a legal JSON string body. */
#ifndef VERIF_JSON_DEC_H
#define VERIF_JSON_DEC_H
#include <stddef.h>
static int vf_hexval(unsigned char c) {
  if (c >= '0' && c <= '9') return c - '0';
  if (c >= 'a' && c <= 'f') return c - 'a' + 10;
  if (c >= 'A' && c <= 'F') return c - 'A' + 10;
  return -1;
}
static long json_body_decode(const unsigned char* s, size_t n, unsigned char* out, size_t cap) {
  size_t i = 0, o = 0;
  while (i < n) {
    unsigned char c = s[i];
    if (c < 0x20 || c == '"') return -1;
    if (c != '\\') {
      if (o >= cap) return -1;
      out[o++] = c; i++;
      continue;
    }
    if (i + 1 >= n) return -1;
    c = s[i + 1];
    unsigned char v;
    if (c == '"' || c == '\\' || c == '/') v = c;
    else if (c == 'b') v = '\b';
    else if (c == 'f') v = '\f';
    else if (c == 'n') v = '\n';
    else if (c == 'r') v = '\r';
    else if (c == 't') v = '\t';
    else if (c == 'u') {
      if (i + 5 >= n) return -1;
      int h0 = vf_hexval(s[i + 2]), h1 = vf_hexval(s[i + 3]), h2 = vf_hexval(s[i + 4]), h3 = vf_hexval(s[i + 5]);
      if (h0 < 0 || h1 < 0 || h2 < 0 || h3 < 0) return -1;
      unsigned cp = (unsigned)((h0 << 12) | (h1 << 8) | (h2 << 4) | h3);
      if (cp < 0x80) { if (o >= cap) return -1; out[o++] = (unsigned char)cp; }
      else if (cp < 0x800) { if (o + 2 > cap) return -1; out[o++] = 0xC0 | (cp >> 6); out[o++] = 0x80 | (cp & 0x3F); }
      else { if (o + 3 > cap) return -1; out[o++] = 0xE0 | (cp >> 12); out[o++] = 0x80 | ((cp >> 6) & 0x3F); out[o++] = 0x80 | (cp & 0x3F); }
      i += 6;
      continue;
    } else return -1;
    if (o >= cap) return -1;
    out[o++] = v;
    i += 2;
  }
  return (long)o;
}
#endif
