/* Writer side of the Makefile dependency dialect that GCC and Clang emit (gcc/mkdeps.c munge(); clang DependencyFile.cpp
 * PrintFilename), as listed in the statement of C15.  Written from those sources' rules, independent of depfile_parser.cc:
 *
 *   ' '  ->  the backslashes immediately preceding it doubled, then "\ "
 *   '#'  ->  "\#"
 *   '$'  ->  "$$"
 *   ':'  ->  "\:"   (inside a name; the ':' that ends the target list is written raw)
 *   every other byte verbatim.
 *
 * Names the dialect cannot express unambiguously are excluded by DEPFILE_NAME_OK: empty names, NUL/newline/CR/tab, a name ending
 * in '\' (the separator blank after it would read as an escaped blank) or in ':' (reads as the end of the target list).
 */
#ifndef VERIF_DEPFILE_ENC_H
#define VERIF_DEPFILE_ENC_H
#include <stddef.h>
static int depfile_name_ok(const unsigned char* s, size_t n) {
  size_t i;
  if (n == 0) return 0;
  for (i = 0; i < n; i++) if (s[i] == 0 || s[i] == '\n' || s[i] == '\r' || s[i] == '\t') return 0;
  if (s[n - 1] == '\\' || s[n - 1] == ':') return 0;
  return 1;
}
/* appends enc(name) to out[*o...]; returns 0 if cap would be exceeded */
static int depfile_enc_name(const unsigned char* s, size_t n, unsigned char* out, size_t* o, size_t cap) {
  size_t i, q;
  for (i = 0; i < n; i++) {
    unsigned char c = s[i];
    if (c == ' ') {
      for (q = i; q > 0 && s[q - 1] == '\\'; q--) { if (*o >= cap) return 0; out[(*o)++] = '\\'; }
      if (*o + 2 > cap) return 0;
      out[(*o)++] = '\\'; out[(*o)++] = ' ';
    } else if (c == '#') {
      if (*o + 2 > cap) return 0;
      out[(*o)++] = '\\'; out[(*o)++] = '#';
    } else if (c == '$') {
      if (*o + 2 > cap) return 0;
      out[(*o)++] = '$'; out[(*o)++] = '$';
    } else if (c == ':') {
      if (*o + 2 > cap) return 0;
      out[(*o)++] = '\\'; out[(*o)++] = ':';
    } else {
      if (*o >= cap) return 0;
      out[(*o)++] = c;
    }
  }
  return 1;
}
static int depfile_put(const char* lit, unsigned char* out, size_t* o, size_t cap) {
  size_t i;
  for (i = 0; lit[i] != 0; i++) { if (*o >= cap) return 0; out[(*o)++] = (unsigned char)lit[i]; }
  return 1;
}
#endif
