/* POSIX sh token recognition (XCU 2.2 Quoting, 2.3 Token Recognition) restricted to
 * what a correct escaper may emit: unquoted inert characters, '...' and \c.
 * Any OTHER unquoted byte that the shell could interpret makes the text "not a
 * list of plain words" (-1), so an escaper that leaves such a byte unquoted fails.
 * Written from POSIX, independent of util.cc.  The native replay additionally
 * runs the installed /bin/sh on each counterexample.
 *
 * SH_INERT(c): c is never special to sh when it appears unquoted anywhere in a word:
 *   not an operator/blank (| & ; < > ( ) space tab newline), not a quoting char (\ ' "),
 *   not an expansion trigger ($ ` ~ * ? [ ] # % = ! { } ^ , :), not a control byte / DEL.
 * (XCU 2.2 lists the first two groups as "must be quoted" and `* ? [ # ~ = %` as "may need
 *  to be quoted"; `! { } ^ ,` are reserved words / brace / history characters in common shells;
 *  ':' is inert for POSIX sh but is left out to keep the set minimal.)
 */
#ifndef VERIF_SH_WORDS_H
#define VERIF_SH_WORDS_H
#include <stddef.h>
#define SH_ALNUM(c) (((c) >= 'A' && (c) <= 'Z') || ((c) >= 'a' && (c) <= 'z') || ((c) >= '0' && (c) <= '9'))
#define SH_INERT(c) (SH_ALNUM(c) || (c) == '_' || (c) == '+' || (c) == '-' || (c) == '.' || (c) == '/' || (c) == '@' || (c) >= 0x80)
#define SH_BLANK(c) ((c) == ' ' || (c) == '\t' || (c) == '\n')

/* Splits s[0..n) into words.  Word k is written to out + k*W (at most W bytes) with
 * length lens[k].  Returns the number of words, or -1 if the text contains an unquoted
 * special byte, an unterminated quote, a trailing backslash, a NUL, more than maxw words
 * or a word longer than W. */
static int sh_split(const unsigned char* s, size_t n, unsigned char* out, size_t W, size_t* lens, int maxw) {
  size_t i = 0, wl = 0;
  int nw = 0, inword = 0;
  while (i < n) {
    unsigned char c = s[i];
    if (c == 0) return -1;
    if (SH_BLANK(c)) {
      if (inword) { lens[nw] = wl; nw++; inword = 0; wl = 0; }
      i++;
      continue;
    }
    if (!inword) { if (nw >= maxw) return -1; inword = 1; wl = 0; }
    if (c == '\'') {
      i++;
      while (i < n && s[i] != '\'') {
        if (s[i] == 0 || wl >= W) return -1;
        out[(size_t)nw * W + wl++] = s[i++];
      }
      if (i >= n) return -1; /* unterminated */
      i++;
    } else if (c == '\\') {
      if (i + 1 >= n) return -1;
      if (s[i + 1] == '\n') { i += 2; continue; } /* line continuation */
      if (s[i + 1] == 0 || wl >= W) return -1;
      out[(size_t)nw * W + wl++] = s[i + 1];
      i += 2;
    } else if (SH_INERT(c)) {
      if (wl >= W) return -1;
      out[(size_t)nw * W + wl++] = c;
      i++;
    } else {
      return -1; /* unquoted special byte */
    }
  }
  if (inword) { lens[nw] = wl; nw++; }
  return nw;
}
#endif
