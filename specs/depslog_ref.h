/* Reference reader of the .ninja_deps format, written from the format comment in
 * deps_log.h (not from deps_log.cc).  Two notions, because the property statement
 * ("every record before the first malformed one is kept, the rest is cut off") does not
 * say what a reader must do with records no writer can produce:
 *
 *   MUST-accept  = exactly what RecordId/RecordDeps emit:
 *     path record : size % 4 == 0, size >= 8, name = bytes minus 0..3 trailing NUL padding,
 *                   name non-empty and NUL-free, padding = (4 - len % 4) % 4,
 *                   last word == ~(number of path records before it), name not seen before
 *     deps record : size % 4 == 0, size >= 12, 0 <= out < #paths, every 0 <= in < #paths
 *   MAY-accept   = additionally path records of any size >= 5 whose name (after removing up to
 *                   three trailing NULs) is non-empty (unaligned sizes, embedded NULs)
 *   every record: size <= maxrec and completely present in the file.
 *
 * depslog_ref(f, n, limit, ...) answers:
 *   end_must    : end offset of the longest prefix of MUST-accept records of f[0..n)
 *   boundary_ok : f[16..limit) is a sequence of whole MAY-accept records ending exactly at limit
 *   the table (paths, last deps per output) of f[16..limit) when boundary_ok.
 * Offsets are absolute; f[0..16) is the header (caller's business).  Little-endian words, as
 * ninja writes them natively on the verification target. */
#ifndef VERIF_DEPSLOG_REF_H
#define VERIF_DEPSLOG_REF_H
#include <stddef.h>
#ifndef DL_MAXP
#define DL_MAXP 6
#endif
#ifndef DL_MAXD
#define DL_MAXD 6
#endif
typedef struct {
  size_t end_must;
  int boundary_ok;
  int overflow; /* reference capacity exceeded: run is undecided */
  int npaths;
  size_t poff[DL_MAXP], plen[DL_MAXP];
  int has[DL_MAXP];
  long long mtime[DL_MAXP];
  int nd[DL_MAXP];
  int dep[DL_MAXP][DL_MAXD];
} dl_ref;

static unsigned dl_u32(const unsigned char* p) {
  return (unsigned)p[0] | ((unsigned)p[1] << 8) | ((unsigned)p[2] << 16) | ((unsigned)p[3] << 24);
}

/* parse records from offset 16; stop at `limit` (may-mode) or at the first non-MUST record (must-mode) */
static size_t dl_scan(const unsigned char* f, size_t n, size_t limit, size_t maxrec, int must_mode, dl_ref* r) {
  size_t off = 16;
  int k, i;
  r->npaths = 0;
  r->boundary_ok = 0;
  for (k = 0; k < DL_MAXP; k++) { r->has[k] = 0; r->nd[k] = 0; r->mtime[k] = 0; r->plen[k] = 0; r->poff[k] = 0; }
  for (;;) {
    unsigned w, size;
    int is_deps;
    if (!must_mode && off == limit) { r->boundary_ok = 1; return off; }
    if (!must_mode && off + 4 > limit) return off;
    if (off + 4 > n) return off;
    w = dl_u32(f + off);
    is_deps = (w >> 31) != 0;
    size = w & 0x7FFFFFFFu;
    if (size > maxrec) return off;
    if (off + 4 + (size_t)size > n) return off;
    if (!must_mode && off + 4 + (size_t)size > limit) return off;
    if (is_deps) {
      int out, cnt;
      if (size % 4 != 0 || size < 12) return off;
      out = (int)dl_u32(f + off + 4);
      cnt = (int)(size / 4) - 3;
      if (out < 0 || out >= r->npaths) return off;
      if (cnt > DL_MAXD) { r->overflow = 1; return off; }
      for (i = 0; i < cnt; i++) {
        int in = (int)dl_u32(f + off + 16 + 4 * (size_t)i);
        if (in < 0 || in >= r->npaths) return off;
      }
      r->has[out] = 1;
      r->mtime[out] = (long long)(((unsigned long long)dl_u32(f + off + 12) << 32) | (unsigned long long)dl_u32(f + off + 8));
      r->nd[out] = cnt;
      for (i = 0; i < cnt; i++) r->dep[out][i] = (int)dl_u32(f + off + 16 + 4 * (size_t)i);
    } else {
      size_t plen, stripped = 0, j;
      unsigned sum;
      if (size < 5) return off;
      plen = size - 4;
      while (stripped < 3 && plen > 0 && f[off + 4 + plen - 1] == 0) { plen--; stripped++; }
      if (plen == 0) return off;
      sum = dl_u32(f + off + 4 + size - 4);
      if ((int)~sum != r->npaths) return off;
      for (k = 0; k < r->npaths; k++) {
        if (r->plen[k] == plen) {
          int eq = 1;
          for (j = 0; j < plen; j++) if (f[r->poff[k] + j] != f[off + 4 + j]) eq = 0;
          if (eq) return off; /* duplicate path */
        }
      }
      if (must_mode) {
        if (size % 4 != 0) return off;
        if (stripped != (4 - plen % 4) % 4) return off;
        for (j = 0; j < plen; j++) if (f[off + 4 + j] == 0) return off;
      }
      if (r->npaths >= DL_MAXP) { r->overflow = 1; return off; }
      r->poff[r->npaths] = off + 4;
      r->plen[r->npaths] = plen;
      r->npaths++;
    }
    off += 4 + (size_t)size;
  }
}

static void depslog_ref(const unsigned char* f, size_t n, size_t limit, size_t maxrec, dl_ref* r) {
  size_t e;
  r->overflow = 0;
  e = dl_scan(f, n, n, maxrec, 1, r);
  r->end_must = e;
  (void)dl_scan(f, n, limit, maxrec, 0, r);
}
#endif
