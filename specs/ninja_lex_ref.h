/* specs/ninja_lex_ref.h - reference reader for ninja "eval strings" (paths and variable values), written from the manual
 * (doc/manual.asciidoc, "Lexical syntax": $-escapes `$$` `$ ` `$:` `$^` `$newline`+indentation, `${var}` `$var`; a path ends at space, ':', '|'
 * or the end of the line; a value runs to the end of the line; CRLF is accepted as a line end) - NOT from lexer.in.cc.
 * It is BRANCH-FREE on purpose: under CBMC's path-by-path exploration every branch on symbolic data doubles the paths, so the automaton below
 * is a chain of selects over a fixed number of steps.  The same text is compiled natively for replays (plain C).
 *
 * Output: a flattened token list  ch[i], kind[i]  (kind 0: literal byte, 1: first byte of a variable name, 2: further byte of that name),
 * the result (1 ok / 0 error) and the offset where reading stopped (the delimiter for paths; after the newline for values). */
#ifndef VF_NINJA_LEX_REF_H
#define VF_NINJA_LEX_REF_H
#define VF_LX_CAP 16
/* arithmetic select: no branch even for a verifier that turns ?: into control flow */
#define VF_SEL(c, a, b) ((int)(b) ^ (((int)(a) ^ (int)(b)) & (-(int)((c) != 0))))
struct vf_lex_out { unsigned char ch[VF_LX_CAP]; unsigned char kind[VF_LX_CAP]; int n; int ok; int end; int after_ws; };
static int vf_is_simple(unsigned char c) { return ((c >= 'a') & (c <= 'z')) | ((c >= 'A') & (c <= 'Z')) | ((c >= '0') & (c <= '9')) | (c == '_') | (c == '-'); }
static int vf_is_var(unsigned char c) { return vf_is_simple(c) | (c == '.'); }
enum { VS_NORMAL, VS_DOLLAR, VS_BRACE, VS_SIMPLE, VS_CONT, VS_DOLLAR_CR, VS_CR, VS_DONE, VS_ERR };
/* in: NUL-terminated text of length len (in[len] == 0); path: 1 for a path, 0 for a value; caret_ok: `$^` allowed (ninja_required_version >= 1.14) */
static void vf_lex_ref(const unsigned char* in, int len, int path, int caret_ok, struct vf_lex_out* o) {
  int st = VS_NORMAL, n = 0, end = 0, brace_n = 0, i;
  for (i = 0; i < VF_LX_CAP; i++) { o->ch[i] = 0; o->kind[i] = 0; }
  for (i = 0; i <= len; i++) {
    unsigned char c = in[i];
    int active = (st != VS_DONE) & (st != VS_ERR);
    /* a variable name / a run of continuation indentation ends at the first byte that cannot extend it; that byte is then read in NORMAL */
    int leave_simple = (st == VS_SIMPLE) & !vf_is_simple(c);
    int leave_cont = (st == VS_CONT) & (c != ' ');
    int s = VF_SEL(leave_simple | leave_cont, VS_NORMAL, st);
    int is_delim_path = (c == ' ') | (c == ':') | (c == '|');
    /* ---- what this byte does, per state ---- */
    int emit = 0, ekind = 0; unsigned char ech = c; int ns = s;
    /* NORMAL */
    int N = active & (s == VS_NORMAL);
    int n_dollar = N & (c == '$'), n_nul = N & (c == 0), n_cr = N & (c == '\r'), n_nl = N & (c == '\n');
    int n_delim = N & is_delim_path & (path != 0);
    int n_text = N & !n_dollar & !n_nul & !n_cr & !n_nl & !n_delim;
    /* DOLLAR */
    int D = active & (s == VS_DOLLAR);
    int d_lit = D & ((c == '$') | (c == ' ') | (c == ':'));
    int d_caret = D & (c == '^');
    int d_nl = D & (c == '\n'), d_cr = D & (c == '\r'), d_brace = D & (c == '{');
    int d_simple = D & vf_is_simple(c);
    int d_bad = D & !d_lit & !d_caret & !d_nl & !d_cr & !d_brace & !d_simple;
    /* BRACE */
    int B = active & (s == VS_BRACE);
    int b_var = B & vf_is_var(c), b_close = B & (c == '}') & (brace_n > 0), b_bad = B & !b_var & !b_close;
    /* SIMPLE (continuing), CONT (continuing) */
    int S = active & (s == VS_SIMPLE);
    int C = active & (s == VS_CONT);
    /* DOLLAR_CR, CR */
    int DC = active & (s == VS_DOLLAR_CR), K = active & (s == VS_CR);
    emit = n_text | d_lit | (d_caret & (caret_ok != 0)) | d_simple | b_var | S;
    ekind = VF_SEL(d_simple, 1, VF_SEL(b_var & (brace_n == 0), 1, VF_SEL(b_var | S, 2, 0)));
    ech = (unsigned char)VF_SEL(d_caret, '\n', c);
    ns = VF_SEL(n_dollar, VS_DOLLAR, ns);
    ns = VF_SEL(n_nul | d_bad | b_bad | (d_caret & (caret_ok == 0)) | (DC & (c != '\n')) | (K & (c != '\n')), VS_ERR, ns);
    ns = VF_SEL(n_cr, VS_CR, ns);
    ns = VF_SEL(n_nl | n_delim | (K & (c == '\n')), VS_DONE, ns);
    ns = VF_SEL(d_lit | (d_caret & (caret_ok != 0)) | b_close, VS_NORMAL, ns);
    ns = VF_SEL(d_nl | (DC & (c == '\n')), VS_CONT, ns);
    ns = VF_SEL(d_cr, VS_DOLLAR_CR, ns);
    ns = VF_SEL(d_brace, VS_BRACE, ns);
    ns = VF_SEL(d_simple, VS_SIMPLE, ns);
    ns = VF_SEL(C, VS_CONT, ns);
    /* where reading stops: a path stops AT its delimiter / newline / CR; a value stops AFTER the newline */
    end = VF_SEL(n_delim | (n_nl & (path != 0)), i, end);
    end = VF_SEL(n_nl & (path == 0), i + 1, end);
    end = VF_SEL(K & (c == '\n'), VF_SEL(path != 0, i - 1, i + 1), end);
    brace_n = VF_SEL(d_brace, 0, brace_n + (b_var != 0));
    {
      int slot = VF_SEL(n < VF_LX_CAP - 1, n, VF_LX_CAP - 1);          /* the last slot absorbs overflow (inputs are shorter than the capacity) */
      unsigned char oc = o->ch[slot], ok_ = o->kind[slot];
      o->ch[slot] = (unsigned char)VF_SEL(emit, ech, oc); o->kind[slot] = (unsigned char)VF_SEL(emit, ekind, ok_);
    }
    n += emit;
    st = VF_SEL(active, ns, st);
  }
  o->n = n; o->ok = (st == VS_DONE); o->end = end;
  /* after a path ninja skips blanks and `$`-newline continuations up to the next token */
  {
    int p = end, w = 0, stop = 0, j;          /* w: 0 plain, 1 after '$', 2 after "$\r"; p: committed position */
    for (j = 0; j <= len; j++) {
      unsigned char c = in[j];
      int on = (j >= end) & !stop;
      int sp = on & (w == 0) & (c == ' '), dl = on & (w == 0) & (c == '$');
      int w1nl = on & (w == 1) & (c == '\n'), w1cr = on & (w == 1) & (c == '\r'), w2nl = on & (w == 2) & (c == '\n');
      int other = on & !sp & !dl & !w1nl & !w1cr & !w2nl;
      p = VF_SEL(sp | w1nl | w2nl, j + 1, p);
      w = VF_SEL(dl, 1, VF_SEL(w1cr, 2, VF_SEL(sp | w1nl | w2nl, 0, w)));
      stop = stop | other;
    }
    o->after_ws = p;
  }
}
#endif
