/* Reference path normaliser, written from the statement of C14 (not from util.cc).
 * Shared by the CBMC harness (C) and the native replay (C++).
 *
 *   split on '/'; drop empty and "." components; ".." removes the last kept
 *   component unless there is none or it is itself ".." (then it is kept);
 *   join with '/'; keep one leading '/'; an empty result is ".".
 *
 * out must have room for n bytes (n >= 1) -- the result is never longer than
 * the input, which is itself one of the checked clauses.  n == 0 -> 0.
 */
#ifndef VERIF_CANON_REF_H
#define VERIF_CANON_REF_H
#include <stddef.h>
#ifndef CANON_REF_MAXC
#define CANON_REF_MAXC 64
#endif
static size_t canon_ref(const unsigned char* s, size_t n, unsigned char* out) {
  size_t cs[CANON_REF_MAXC], cl[CANON_REF_MAXC];
  int dd[CANON_REF_MAXC];
  size_t nc = 0, i = 0, o = 0, k, t;
  if (n == 0) return 0;
  while (i < n) {
    size_t j, len;
    if (s[i] == '/') { i++; continue; }
    j = i;
    while (j < n && s[j] != '/') j++;
    len = j - i;
    if (len == 1 && s[i] == '.') {
      /* dropped */
    } else if (len == 2 && s[i] == '.' && s[i + 1] == '.') {
      if (nc > 0 && !dd[nc - 1]) nc--;
      else { cs[nc] = i; cl[nc] = len; dd[nc] = 1; nc++; }
    } else {
      cs[nc] = i; cl[nc] = len; dd[nc] = 0; nc++;
    }
    i = j;
  }
  if (s[0] == '/') out[o++] = '/';
  for (k = 0; k < nc; k++) {
    if (k > 0) out[o++] = '/';
    for (t = 0; t < cl[k]; t++) out[o++] = s[cs[k] + t];
  }
  if (o == 0) out[o++] = '.';
  return o;
}
#endif
